(* An abstraction of SQLite's WAL-mode locking as redo-rs uses it: one writer
   lock, a commit counter, connections running transactions.  A DEFERRED
   transaction that has read and then writes gets SQLITE_BUSY at once (the busy
   handler is not consulted) if the writer lock is taken or anybody committed
   since its snapshot; BEGIN IMMEDIATE and a first write without a prior read
   wait for the writer lock under the busy handler (modelled as "not enabled").
   MODEL FILE: definitions only. *)
From Coq Require Import List Bool Arith.
Import ListNotations.

Inductive mode := Deferred | Immediate.
Inductive op := ORead | OWrite.
Record prog := { pmode : mode; pops : list op }.       (* BEGIN <mode>; ops; COMMIT *)

Inductive cst := Idle | Def0 | Reading (v : nat) | Writing (dirty : bool).   (* dirty: the transaction has written a frame *)
Record conn := { st : cst; begun : bool; rest : list op; finished : bool }.
Record db := { ver : nat; writer : option nat; conns : list conn }.

Inductive outcome := Ok (d : db) | Blocked (d : db) | Busy.

Definition start_conn (p : prog) : conn := {| st := Idle; begun := false; rest := pops p; finished := false |}.
Definition init (ps : list prog) : db := {| ver := 0; writer := None; conns := map start_conn ps |}.

Fixpoint set_nth {A} (l : list A) (i : nat) (x : A) : list A :=
  match l, i with
  | [], _ => []
  | _ :: l', O => x :: l'
  | y :: l', S i' => y :: set_nth l' i' x
  end.

Definition upd (d : db) (i : nat) (c : conn) (v : nat) (w : option nat) : db :=
  {| ver := v; writer := w; conns := set_nth (conns d) i c |}.

(* one step of connection i running program p *)
Definition step (ps : list prog) (i : nat) (d : db) : outcome :=
  match nth_error (conns d) i, nth_error ps i with
  | Some c, Some p =>
      if finished c then Ok d else
      if negb (begun c) then
        match pmode p with
        | Immediate =>
            match writer d with
            | None => Ok (upd d i {| st := Writing false; begun := true; rest := rest c; finished := false |} (ver d) (Some i))
            | Some _ => Blocked d
            end
        | Deferred => Ok (upd d i {| st := Def0; begun := true; rest := rest c; finished := false |} (ver d) (writer d))
        end
      else
        match rest c with
        | [] =>   (* COMMIT *)
            match st c with
            | Writing dirty =>
                (* a commit that wrote nothing adds no frame: snapshots taken before it stay current *)
                Ok (upd d i {| st := Idle; begun := true; rest := []; finished := true |}
                        (if dirty then S (ver d) else ver d) None)
            | _ => Ok (upd d i {| st := Idle; begun := true; rest := []; finished := true |} (ver d) (writer d))
            end
        | ORead :: r =>
            match st c with
            | Def0 => Ok (upd d i {| st := Reading (ver d); begun := true; rest := r; finished := false |} (ver d) (writer d))
            | s => Ok (upd d i {| st := s; begun := true; rest := r; finished := false |} (ver d) (writer d))
            end
        | OWrite :: r =>
            match st c with
            | Writing _ => Ok (upd d i {| st := Writing true; begun := true; rest := r; finished := false |} (ver d) (writer d))
            | Def0 =>
                match writer d with
                | None => Ok (upd d i {| st := Writing true; begun := true; rest := r; finished := false |} (ver d) (Some i))
                | Some _ => Blocked d
                end
            | Reading v =>
                match writer d with
                | None => if Nat.eqb v (ver d)
                          then Ok (upd d i {| st := Writing true; begun := true; rest := r; finished := false |} (ver d) (Some i))
                          else Busy
                | Some _ => Busy
                end
            | Idle => Busy    (* not reachable: a begun transaction is never Idle before its end *)
            end
        end
  | _, _ => Ok d
  end.

(* run a schedule (which connection moves next); a blocked step is simply retried later *)
Fixpoint run (ps : list prog) (sched : list nat) (d : db) : option db :=
  match sched with
  | [] => Some d
  | i :: s' => match step ps i d with
               | Ok d' => run ps s' d'
               | Blocked d' => run ps s' d'
               | Busy => None
               end
  end.

(* a transaction is safe if it begins IMMEDIATE or never writes after a read *)
Fixpoint no_write (l : list op) : bool :=
  match l with [] => true | ORead :: r => no_write r | OWrite :: _ => false end.
Definition war_free (l : list op) : bool :=
  match l with [] => true | ORead :: r => no_write r | OWrite :: r => true end.
Definition prog_ok (p : prog) : bool :=
  match pmode p with Immediate => true | Deferred => war_free (pops p) end.

(* entry points for the extracted driver (unique names), and what the harness
   does with a connection that got SQLITE_BUSY: it rolls back and stops *)
Definition wal_step := step.
Definition wal_init := init.
Definition wal_abort (i : nat) (d : db) : db :=
  match nth_error (conns d) i with
  | Some _ =>
      {| ver := ver d;
         writer := match writer d with Some j => if Nat.eqb j i then None else Some j | None => None end;
         conns := set_nth (conns d) i {| st := Idle; begun := true; rest := []; finished := true |} |}
  | None => d
  end.
