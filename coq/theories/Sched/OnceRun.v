(* How often a target's script is started in one run, for every interleaving.

   The part of builder::run that decides whether a script runs, as a transition
   system over any number of processes of any number of runs (invocations).
   The lock of a file id goes through phases:
     free -> PhHold (somebody took it: try_lock / wait_lock)
          -> PhBuild r (a script for run r was forked while it is held -- by the
                      holder, or by the redo-unlocked child the holder waits for)
          -> PhRecorded (the result, success or failure, is committed: the row
                      is marked for run r)
          -> free (unlock; also straight from PhHold when should_build said no).
   should_build reads the committed state under the lock.  A row carries ONE
   mark: the run that dealt with it last (changed_runid / checked_runid /
   failed_runid).  A row marked by run r is never started again by a
   redo-ifchange of run r -- proved for the real is_dirty / is_failed logic on
   the serial model (props/C07.v: C07_dealt_with_not_again, C07_failed_not_again)
   -- but another run that records the same file takes the mark over, after
   which run r may start it again, and once a LATER run has recorded the file
   run r may start it any number of times (observed on the binaries: two
   invocations rebuilding a shared target in turns; the earlier one re-runs it
   for every request).  The commit precedes the release
   (props/C06.v: C06_recorded_before_release).
   A forced `redo t` starts the script whatever the row says (OForce).
   [None] = an event the protocol does not allow.  MODEL FILE: definitions only. *)
From Coq Require Import ZArith List Bool.
Import ListNotations.
Open Scope Z_scope.

Definition key := (Z * Z)%type.                 (* (run id, file id) *)
Definition key_eqb (a b : key) : bool := Z.eqb (fst a) (fst b) && Z.eqb (snd a) (snd b).

Inductive phase := PhHold | PhBuild (r : Z) | PhRecorded.

Record ost := {
  locks : list (Z * (Z * phase));   (* file id -> (pid of the holder, phase) *)
  mark : list (Z * Z);              (* file id -> the run that dealt with it last *)
  dones : list key;                 (* ghost: every recorded result *)
  starts : list key;                (* ghost: script starts decided by should_build (redo-ifchange) *)
  fstarts : list key                (* ghost: forced starts (redo) *)
}.
Definition oinit : ost := {| locks := []; mark := []; dones := []; starts := []; fstarts := [] |}.

Fixpoint olookup {A} (k : Z) (l : list (Z * A)) : option A :=
  match l with [] => None | (a, b) :: l' => if Z.eqb a k then Some b else olookup k l' end.
Definition oremove {A} (k : Z) (l : list (Z * A)) : list (Z * A) :=
  filter (fun x => negb (Z.eqb (fst x) k)) l.
Fixpoint kcount (k : key) (l : list key) : nat :=
  match l with [] => O | x :: l' => (if key_eqb k x then 1 else 0) + kcount k l' end.
(* results recorded for file f by runs other than r *)
Fixpoint foreign (r f : Z) (l : list key) : nat :=
  match l with
  | [] => O
  | (r', f') :: l' => (if Z.eqb f' f && negb (Z.eqb r' r) then 1 else 0) + foreign r f l'
  end.
Definition marked_by (r f : Z) (s : ost) : bool :=
  match olookup f (mark s) with Some r0 => Z.eqb r0 r | None => false end.
(* a later run (a greater run id) has recorded f: for run r the row is then
   "built more recently than its parent" whenever that run changed the file, and
   run r's own completion does not take the mark back (record_new_state leaves
   changed_runid alone when it is not below the own run id) *)
Fixpoint has_newer (r f : Z) (l : list key) : bool :=
  match l with
  | [] => false
  | (r', f') :: l' => (Z.eqb f' f && Z.ltb r r') || has_newer r f l'
  end.

Inductive oev :=
| OAcquire (p f : Z)            (* try_lock / wait_lock succeeded *)
| OStart (r f : Z)              (* should_build said yes: the script is forked *)
| OForce (r f : Z)              (* redo (not -ifchange): the script is forked whatever the row says *)
| ODone (r f : Z)               (* result recorded and committed (success or failure) *)
| ORelease (p f : Z).           (* unlock: after ODone, or without a job when should_build said no *)

Definition set_phase (f p : Z) (ph : phase) (l : list (Z * (Z * phase))) := (f, (p, ph)) :: oremove f l.

Definition oapply (e : oev) (s : ost) : option ost :=
  match e with
  | OAcquire p f =>
      match olookup f (locks s) with
      | None => Some {| locks := (f, (p, PhHold)) :: locks s; mark := mark s; dones := dones s;
                        starts := starts s; fstarts := fstarts s |}
      | Some _ => None
      end
  | OStart r f =>
      match olookup f (locks s) with
      | Some (p, PhHold) =>
          if marked_by r f s && negb (has_newer r f (dones s)) then None
          else Some {| locks := set_phase f p (PhBuild r) (locks s); mark := mark s; dones := dones s;
                       starts := (r, f) :: starts s; fstarts := fstarts s |}
      | _ => None
      end
  | OForce r f =>
      match olookup f (locks s) with
      | Some (p, PhHold) => Some {| locks := set_phase f p (PhBuild r) (locks s); mark := mark s; dones := dones s;
                                    starts := starts s; fstarts := (r, f) :: fstarts s |}
      | _ => None
      end
  | ODone r f =>
      match olookup f (locks s) with
      | Some (p, PhBuild r0) =>
          if Z.eqb r0 r
          then Some {| locks := set_phase f p PhRecorded (locks s);
                       mark := (f, r) :: oremove f (mark s); dones := (r, f) :: dones s;
                       starts := starts s; fstarts := fstarts s |}
          else None
      | _ => None
      end
  | ORelease p f =>
      match olookup f (locks s) with
      | Some (q, PhBuild _) => None
      | Some (q, _) => if Z.eqb q p
                       then Some {| locks := oremove f (locks s); mark := mark s; dones := dones s;
                                    starts := starts s; fstarts := fstarts s |}
                       else None
      | None => None
      end
  end.

Fixpoint orun (es : list oev) (s : ost) : option ost :=
  match es with
  | [] => Some s
  | e :: es' => match oapply e s with Some s' => orun es' s' | None => None end
  end.

(* all events of a trace belong to run r (no other invocation is active) *)
Definition ev_of_run (r : Z) (e : oev) : bool :=
  match e with
  | OStart r' _ => Z.eqb r' r
  | OForce r' _ => Z.eqb r' r
  | ODone r' _ => Z.eqb r' r
  | _ => true
  end.
