(* One redo process's token book along the control flow of builder::run and
   JobServer::block_on: which book operations the code performs, under which
   of its OWN tests, and which assertions it makes.  [None] = an assertion of
   src/jobserver.rs fails (the process would abort with exit 101).
   MODEL FILE: definitions only. *)
From Coq Require Import ZArith List Bool.
Import ListNotations.
Open Scope Z_scope.

Record book := { my : Z; ch : Z; kids : Z }.

Definition create1 (b : book) : book :=
  if 0 <? ch b then {| my := my b; ch := ch b - 1; kids := kids b |}
  else {| my := my b + 1; ch := ch b; kids := kids b |}.
Definition release1 (b : book) : book :=
  if 0 <? ch b then {| my := my b - 1; ch := ch b - 1; kids := kids b |}
  else {| my := my b - 1; ch := ch b; kids := kids b |}.
Fixpoint release_n (n : nat) (b : book) : book :=
  match n with O => b | S n' => release_n n' (release1 b) end.
(* release_except_mine: assert my > 0; release (my - 1) *)
Definition release_except_mine (b : book) : option book :=
  if 0 <? my b then Some (release_n (Z.to_nat (my b - 1)) b) else None.

Inductive lev :=
| PStart        (* JobServerHandle::start, reached only when has_token(): assert my = 1 *)
| PReapCreate   (* block_on: a child exited, no cheat byte: create_tokens(1); if has_token release_except_mine *)
| PReapEat      (* block_on: a child exited, a cheat byte was read *)
| PRead         (* block_on: token byte read -- only attempted while my = 0 *)
| PCheat        (* ensure_token_or_cheat: only when idle (no children) and holding no token and owing no cheat *)
| PWaitAll      (* AllJobsDone::poll: release down to one; give up the last one iff children remain *)
| PReleaseMine  (* lock-wait loop, reached only after ensure_token: assert my >= 1; release(1) *)
| PExit.        (* force_return_tokens with no children left (builder::run took a token back first) *)

Definition pstep (e : lev) (b : book) : option book :=
  match e with
  | PStart =>
      if my b <? 1 then Some b          (* not reachable: the code waits for a token first; no-op *)
      else if Z.eqb (my b) 1 then Some {| my := 0; ch := ch b; kids := kids b + 1 |}
      else None                          (* assert_eq!(my_tokens, 1) *)
  | PReapCreate =>
      if kids b <? 1 then Some b else
      let b1 := create1 {| my := my b; ch := ch b; kids := kids b - 1 |} in
      if 1 <=? my b1 then release_except_mine b1 else Some b1
  | PReapEat =>
      if kids b <? 1 then Some b else Some {| my := my b; ch := ch b; kids := kids b - 1 |}
  | PRead => if Z.eqb (my b) 0 then Some {| my := 1; ch := ch b; kids := kids b |} else Some b
  | PCheat =>
      (* the code's tests: no token, no children, and no unpaid cheat (fix F81: a
         process whose cheated token went to a job that was settled by a cheat byte
         of its own owes a real token and waits for one instead of cheating again;
         before the fix the guard on [ch] did not exist in the code) *)
      if Z.eqb (my b) 0 && Z.eqb (kids b) 0 && Z.eqb (ch b) 0
      then Some {| my := 1; ch := 1; kids := kids b |} else Some b
  | PWaitAll =>
      let b1 := if 2 <=? my b then release_n (Z.to_nat (my b - 1)) b else b in
      if (1 <=? kids b1) && (1 <=? my b1) then Some (release1 b1) else Some b1
  | PReleaseMine =>
      if my b <? 1 then Some b           (* not reachable: ensure_token precedes *)
      else Some (release1 b)
  | PExit =>
      if negb (Z.eqb (kids b) 0) then Some b else
      if my b <? 1 then Some b           (* not reachable after the F7 fix: a token is taken back first *)
      else match release_except_mine b with
           | None => None
           | Some b1 =>
               if Z.eqb (my b1) 1 && (ch b1 <=? my b1) && ((Z.eqb (ch b1) 0) || (Z.eqb (ch b1) 1))
               then Some b1 else None   (* the three assertions of do_force_return_tokens *)
           end
  end.

Fixpoint prun (es : list lev) (b : book) : option book :=
  match es with
  | [] => Some b
  | e :: es' => match pstep e b with Some b' => prun es' b' | None => None end
  end.

Definition start_book : book := {| my := 1; ch := 0; kids := 0 |}.

(* what holds between two wake-ups *)
Definition binv (b : book) : Prop :=
  0 <= my b <= 1 /\ 0 <= ch b <= 1 /\ 0 <= kids b.
