(* The second lock per target (fix F71): id + BUILD_LOCK_MAGIC is held from
   before the commit that starts rewriting a target's rows until after the
   commit that records its result.  Two layers:

   1. [blapply]: the trace protocol of Sched/Locks.v with the build lock's two
      obligations added (taken by the starter before the job starts, released
      only after the result is recorded).  The hooked implementation's traces
      are validated with it on every parallel run.
   2. [tstep]: the reason why that is enough for a dirtiness walk.  Walks and
      builders work inside SQLite write transactions (BEGIN IMMEDIATE), which
      exclude one another; a walk that probes the build lock of f and finds it
      free reads rows of f that are not in mid-build.

   MODEL FILE with its proofs (small). *)
From Coq Require Import ZArith List Bool Lia.
From Redo Require Import Sched.Locks Sched.LocksProofs.
Import ListNotations.
Open Scope Z_scope.

Definition bmagic : Z := 536870912.   (* BUILD_LOCK_MAGIC = 0x20000000, src/state.rs *)

Definition blapply (e : lev) (s : ls) : option ls :=
  match e with
  | LJobStart p f =>
      match lookup (f + bmagic) (holder s) with
      | Some q => if Z.eqb q p then lapply e s else None
      | None => None
      end
  | LRelease p g =>
      if has_key (g - bmagic) (running s) then None else lapply e s
  | _ => lapply e s
  end.

Fixpoint brun (es : list lev) (s : ls) : option ls :=
  match es with
  | [] => Some s
  | e :: es' => match blapply e s with Some s' => brun es' s' | None => None end
  end.

Definition binv (s : ls) : Prop :=
  inv s /\ forall f p, In (f, p) (running s) -> lookup (f + bmagic) (holder s) = Some p.

Lemma blapply_lapply e s s' : blapply e s = Some s' -> lapply e s = Some s'.
Proof.
  destruct e as [p f|p f|p f|p f|p f|p f|p]; cbn [blapply]; try (intro H; exact H).
  - destruct (has_key (f - bmagic) (running s)); [discriminate|auto].
  - destruct (lookup (f + bmagic) (holder s)) as [q|]; [|discriminate].
    destruct (Z.eqb q p); [auto|discriminate].
Qed.

Lemma lookup_remove_key_other k g l : k <> g -> lookup k (remove_key g l) = lookup k l.
Proof.
  intro Hne. unfold remove_key. induction l as [|[a b] l IH]; cbn; [reflexivity|].
  destruct (Z.eqb a g) eqn:E; cbn.
  - apply Z.eqb_eq in E. subst a. destruct (Z.eqb g k) eqn:E2; [apply Z.eqb_eq in E2; congruence|exact IH].
  - destruct (Z.eqb a k); [reflexivity|exact IH].
Qed.

Lemma lookup_remove_val_other k q v l : lookup k l = Some q -> q <> v -> lookup k (remove_val v l) = Some q.
Proof.
  intros H Hne. unfold remove_val. induction l as [|[a b] l IH]; cbn in *; [discriminate|].
  destruct (Z.eqb a k) eqn:E.
  - inversion H; subst b. destruct (Z.eqb q v) eqn:E2; [apply Z.eqb_eq in E2; congruence|].
    cbn. now rewrite E.
  - destruct (negb (Z.eqb b v)); cbn; [rewrite E|]; auto.
Qed.

Theorem blapply_binv e s s' : binv s -> blapply e s = Some s' -> binv s'.
Proof.
  intros [Hi Hb] H. split; [eapply lapply_inv; [exact Hi|eapply blapply_lapply; exact H]|].
  destruct e as [p f|p f|p f|p f|p f|p f|p]; cbn [blapply lapply] in H.
  - (* acquired *)
    destruct (has_key f (holder s)) eqn:E; [discriminate|]. inversion H; subst; cbn.
    intros f0 p0 Hin. specialize (Hb _ _ Hin).
    destruct (Z.eqb f (f0 + bmagic)) eqn:E2; [|exact Hb].
    apply Z.eqb_eq in E2. subst f. unfold has_key in E. now rewrite Hb in E.
  - inversion H; subst. exact Hb.
  - (* release *)
    destruct (has_key (f - bmagic) (running s)) eqn:Eb; [discriminate|].
    destruct (lookup f (holder s)) as [q|] eqn:L; [|discriminate].
    destruct (Z.eqb q p).
    + destruct (negb (has_key f (running s))); [|discriminate]. inversion H; subst; cbn.
      intros f0 p0 Hin. rewrite lookup_remove_key_other; [auto|].
      intro Heq. apply has_key_false in Eb. apply Eb. apply in_map_iff. exists (f0, p0).
      split; [cbn; lia|exact Hin].
    + destruct (mem p f (forced s)); [|discriminate]. inversion H; subst; cbn. exact Hb.
  - destruct (has_key f (holder s)); [|discriminate]. inversion H; subst; cbn. exact Hb.
  - (* job start *)
    destruct (lookup (f + bmagic) (holder s)) as [qb|] eqn:Lb; [|discriminate].
    destruct (Z.eqb qb p) eqn:Eq; [|discriminate]. apply Z.eqb_eq in Eq. subst qb.
    destruct (has_key f (running s)); [discriminate|].
    destruct (lookup f (holder s)) as [q|]; [|discriminate].
    destruct (Z.eqb q p || mem p f (forced s)); [|discriminate].
    inversion H; subst; cbn. intros f0 p0 [Heq|Hin]; [inversion Heq; subst; exact Lb|auto].
  - (* job done *)
    destruct (mem f p (running s)); [|discriminate]. inversion H; subst; cbn.
    intros f0 p0 Hin. apply in_remove_key in Hin as [Hin _]. auto.
  - (* process exit *)
    match type of H with context [existsb ?g (running s)] => destruct (existsb g (running s)) eqn:E end; [discriminate|].
    inversion H; subst; cbn. intros f0 p0 Hin.
    apply lookup_remove_val_other; [auto|].
    intro Heq. subst p0.
    assert (X : existsb (fun x => Z.eqb (snd x) p
                 || match lookup (fst x) (holder s) with Some q => Z.eqb q p | None => false end) (running s) = true).
    { apply existsb_exists. exists (f0, p). split; [exact Hin|]. cbn. now rewrite Z.eqb_refl. }
    congruence.
Qed.

Theorem brun_binv es : forall s s', binv s -> brun es s = Some s' -> binv s'.
Proof.
  induction es as [|e es IH]; intros s s' Hs H; cbn in H; [inversion H; subst; exact Hs|].
  destruct (blapply e s) as [s1|] eqn:E; [|discriminate].
  eapply IH; [|exact H]. eapply blapply_binv; eauto.
Qed.

Lemma binv_empty : binv empty.
Proof. split; [exact inv_empty|]. intros f p []. Qed.

(* on every accepted trace: while a script runs, the process that started it
   holds the target's build lock *)
Theorem running_holds_build_lock es s :
  brun es empty = Some s -> forall f p, In (f, p) (running s) -> lookup (f + bmagic) (holder s) = Some p.
Proof. intro H. exact (proj2 (brun_binv _ _ _ binv_empty H)). Qed.

(* an accepted trace is accepted by the protocol of Locks.v as well *)
Theorem brun_lrun es : forall s s', brun es s = Some s' -> lrun es s = Some s'.
Proof.
  induction es as [|e es IH]; intros s s' H; cbn in *; [exact H|].
  destruct (blapply e s) as [s1|] eqn:E; [|discriminate].
  rewrite (blapply_lapply _ _ _ E). auto.
Qed.

(* ------------------------------------------------------------------ *)
(* Layer 2: walks, builders and write transactions.                    *)

Record ts := {
  txn : option Z;          (* the process inside a write transaction *)
  blk : list (Z * Z);      (* build lock: fid -> pid *)
  flux : list Z;           (* targets whose committed rows are in mid-build *)
  seen_free : list Z;      (* what the walk of the current transaction found free *)
  bad : bool               (* a walk read mid-build rows of a target it had found free *)
}.

Definition tinit : ts := {| txn := None; blk := []; flux := []; seen_free := []; bad := false |}.

Definition zmem (f : Z) (l : list Z) : bool := existsb (Z.eqb f) l.
Arguments zmem : simpl never.

Inductive tev :=
| TBegin (p : Z)            (* BEGIN IMMEDIATE succeeded *)
| TLock (p f : Z)           (* builder, inside its transaction: try_lock of the build lock succeeded *)
| TStart (p f : Z)          (* builder: the commit that starts rewriting f's rows (ends the transaction) *)
| TRecord (p f : Z)         (* builder: begin, record the result, commit -- one step *)
| TUnlock (p f : Z)         (* builder: the build lock is dropped *)
| TProbe (p f : Z)          (* walk, inside its transaction: F_GETLK on f's build lock *)
| TRead (p f : Z)           (* walk, inside its transaction: f's rows are read *)
| TEnd (p : Z).             (* commit / rollback of a transaction that started nothing *)

Definition is_txn (p : Z) (s : ts) : bool := match txn s with Some q => Z.eqb q p | None => false end.

Definition tstep (e : tev) (s : ts) : option ts :=
  match e with
  | TBegin p => match txn s with
                | None => Some {| txn := Some p; blk := blk s; flux := flux s; seen_free := []; bad := bad s |}
                | Some _ => None end
  | TLock p f => if is_txn p s && negb (has_key f (blk s))
                 then Some {| txn := txn s; blk := (f, p) :: blk s; flux := flux s; seen_free := seen_free s; bad := bad s |}
                 else None
  | TStart p f => if is_txn p s && match lookup f (blk s) with Some q => Z.eqb q p | None => false end
                  then Some {| txn := None; blk := blk s; flux := f :: flux s; seen_free := []; bad := bad s |}
                  else None
  | TRecord p f => match txn s with
                   | None => if match lookup f (blk s) with Some q => Z.eqb q p | None => false end
                             then Some {| txn := None; blk := blk s; flux := filter (fun x => negb (Z.eqb x f)) (flux s);
                                          seen_free := []; bad := bad s |}
                             else None
                   | Some _ => None end
  | TUnlock p f => if match lookup f (blk s) with Some q => Z.eqb q p | None => false end && negb (zmem f (flux s))
                   then Some {| txn := txn s; blk := remove_key f (blk s); flux := flux s; seen_free := seen_free s; bad := bad s |}
                   else None
  | TProbe p f => if is_txn p s
                  then Some {| txn := txn s; blk := blk s; flux := flux s;
                               seen_free := if has_key f (blk s) then seen_free s else f :: seen_free s; bad := bad s |}
                  else None
  | TRead p f => if is_txn p s
                 then Some {| txn := txn s; blk := blk s; flux := flux s; seen_free := seen_free s;
                              bad := bad s || (zmem f (seen_free s) && zmem f (flux s)) |}
                 else None
  | TEnd p => if is_txn p s
              then Some {| txn := None; blk := blk s; flux := flux s; seen_free := []; bad := bad s |}
              else None
  end.

Fixpoint trun (es : list tev) (s : ts) : option ts :=
  match es with
  | [] => Some s
  | e :: es' => match tstep e s with Some s' => trun es' s' | None => None end
  end.

Definition tinv (s : ts) : Prop :=
  bad s = false
  /\ (forall f, zmem f (flux s) = true -> has_key f (blk s) = true)
  /\ (forall f, zmem f (seen_free s) = true -> zmem f (flux s) = false).

Lemma zmem_filter_ne f g l : zmem f (filter (fun x => negb (Z.eqb x g)) l) = true -> zmem f l = true.
Proof.
  unfold zmem. intro H. apply existsb_exists in H as (x & Hin & E). apply filter_In in Hin as [Hin _].
  apply existsb_exists. eauto.
Qed.

Lemma zmem_filter_self f l : zmem f (filter (fun x => negb (Z.eqb x f)) l) = false.
Proof.
  unfold zmem. destruct (existsb _ _) eqn:E; [|reflexivity]. exfalso.
  apply existsb_exists in E as (x & Hin & E). apply filter_In in Hin as [_ Hn].
  apply Z.eqb_eq in E. subst x. now rewrite Z.eqb_refl in Hn.
Qed.

Theorem tstep_tinv e s s' : tinv s -> tstep e s = Some s' -> tinv s'.
Proof.
  intros (Hb & Hf & Hs) H. unfold tinv. destruct e as [p|p f|p f|p f|p f|p f|p f|p]; cbn [tstep] in H.
  - destruct (txn s); [discriminate|]. inversion H; subst; cbn. repeat split; auto. intros f X. discriminate.
  - destruct (is_txn p s && negb (has_key f (blk s))); [|discriminate]. inversion H; subst; cbn.
    repeat split; auto. intros f0 X. specialize (Hf _ X). unfold has_key in *. cbn.
    destruct (Z.eqb f f0); auto.
  - destruct (is_txn p s && _) eqn:E; [|discriminate]. apply andb_true_iff in E as [_ E].
    inversion H; subst; cbn. repeat split; auto; [|intros f0 X; discriminate].
    intros f0 X. unfold zmem in X. cbn in X. apply orb_true_iff in X as [X|X].
    + apply Z.eqb_eq in X. subst f0. unfold has_key. cbn [blk]. destruct (lookup f (blk s)); [reflexivity|discriminate].
    + apply Hf. exact X.
  - destruct (txn s); [discriminate|]. destruct (match lookup f (blk s) with Some q => Z.eqb q p | None => false end); [|discriminate].
    inversion H; subst; cbn. repeat split; auto; [|intros f0 X; discriminate].
    intros f0 X. apply Hf. eapply zmem_filter_ne; exact X.
  - destruct (_ && negb (zmem f (flux s))) eqn:E; [|discriminate]. apply andb_true_iff in E as [_ E].
    apply negb_true_iff in E. inversion H; subst; cbn. repeat split; auto.
    intros f0 X. destruct (Z.eq_dec f0 f) as [->|Hne]; [unfold zmem in *; congruence|].
    rewrite has_key_remove_other by exact Hne. auto.
  - destruct (is_txn p s); [|discriminate]. inversion H; subst; cbn. repeat split; auto.
    intros f0 X. destruct (has_key f (blk s)) eqn:E; [auto|].
    unfold zmem in X. cbn in X. apply orb_true_iff in X as [X|X]; [|auto].
    apply Z.eqb_eq in X. subst f0. destruct (zmem f (flux s)) eqn:E2; [|reflexivity].
    specialize (Hf _ E2). congruence.
  - destruct (is_txn p s); [|discriminate]. inversion H; subst; cbn. repeat split; auto.
    rewrite Hb. cbn. destruct (zmem f (seen_free s)) eqn:E; [|reflexivity]. cbn. auto.
  - destruct (is_txn p s); [|discriminate]. inversion H; subst; cbn. repeat split; auto. intros f X. discriminate.
Qed.

Theorem trun_tinv es : forall s s', tinv s -> trun es s = Some s' -> tinv s'.
Proof.
  induction es as [|e es IH]; intros s s' Hs H; cbn in H; [inversion H; subst; exact Hs|].
  destruct (tstep e s) as [s1|] eqn:E; [|discriminate].
  eapply IH; [|exact H]. eapply tstep_tinv; eauto.
Qed.

Lemma tinv_init : tinv tinit.
Proof. unfold tinv, tinit; cbn. repeat split; auto; intros f X; discriminate. Qed.

(* for every interleaving of builders and walks that respects the mutual
   exclusion of write transactions: no walk ever reads rows in mid-build of a
   target whose build lock it found free in the same transaction *)
Theorem walk_never_reads_mid_build es s : trun es tinit = Some s -> bad s = false.
Proof. intro H. exact (proj1 (trun_tinv _ _ _ tinv_init H)). Qed.
