From Coq Require Import ZArith List Bool Lia.
From Redo Require Import Sched.Locks.
Import ListNotations.
Open Scope Z_scope.

Lemma lookup_in k v l : lookup k l = Some v -> In (k, v) l.
Proof.
  induction l as [|[a b] l IH]; cbn; [discriminate|].
  destruct (Z.eqb a k) eqn:E; intro H.
  - apply Z.eqb_eq in E. inversion H; subst. now left.
  - right. auto.
Qed.

Lemma has_key_in k l : has_key k l = true <-> In k (map fst l).
Proof.
  unfold has_key. induction l as [|[a b] l IH]; cbn; [split; [discriminate|tauto]|].
  destruct (Z.eqb a k) eqn:E.
  - apply Z.eqb_eq in E. subst. split; auto.
  - apply Z.eqb_neq in E. rewrite IH. split; [auto|intros [H|H]; [congruence|auto]].
Qed.

Lemma has_key_false k l : has_key k l = false <-> ~ In k (map fst l).
Proof. rewrite <- has_key_in. destruct (has_key k l); split; intros; congruence || (exfalso; auto). Qed.

Lemma remove_key_fst k l : map fst (remove_key k l) = filter (fun x => negb (Z.eqb x k)) (map fst l).
Proof.
  unfold remove_key. induction l as [|[a b] l IH]; cbn; [reflexivity|].
  destruct (negb (Z.eqb a k)); cbn; now rewrite IH.
Qed.

Lemma NoDup_filter {A} (f : A -> bool) l : NoDup l -> NoDup (filter f l).
Proof.
  induction 1 as [|x l Hx Hl IH]; cbn; [constructor|].
  destruct (f x); [constructor; [|exact IH]|exact IH].
  intro H. apply filter_In in H. tauto.
Qed.

Lemma in_remove_key f p k l : In (f, p) (remove_key k l) -> In (f, p) l /\ f <> k.
Proof.
  unfold remove_key. intro H. apply filter_In in H as [H1 H2]. cbn in H2.
  apply negb_true_iff, Z.eqb_neq in H2. auto.
Qed.

Lemma has_key_remove_other f k l : f <> k -> has_key f (remove_key k l) = has_key f l.
Proof.
  intro Hne. unfold has_key, remove_key. induction l as [|[a b] l IH]; cbn; [reflexivity|].
  destruct (Z.eqb a k) eqn:E; cbn.
  - apply Z.eqb_eq in E. subst a. destruct (Z.eqb k f) eqn:E2; [apply Z.eqb_eq in E2; congruence|exact IH].
  - destruct (Z.eqb a f); [reflexivity|exact IH].
Qed.

Lemma mem_in a b l : mem a b l = true -> In (a, b) l.
Proof.
  unfold mem. intro H. apply existsb_exists in H as ([x y] & Hin & Hc). cbn in Hc.
  apply andb_true_iff in Hc as [H1 H2]. apply Z.eqb_eq in H1, H2. now subst.
Qed.

Lemma has_key_remove_val f v l : has_key f (remove_val v l) = true -> has_key f l = true.
Proof.
  rewrite !has_key_in. unfold remove_val. intro H. apply in_map_iff in H as ([a b] & E & Hin).
  apply filter_In in Hin as [Hin _]. cbn in E. subst. apply in_map_iff. now exists (f, b).
Qed.

Lemma holder_of_remove_val f q v l :
  NoDup (map fst l) -> In (f, q) l -> q <> v -> has_key f (remove_val v l) = true.
Proof.
  intros _ Hin Hne. apply has_key_in, in_map_iff. exists (f, q). split; [reflexivity|].
  unfold remove_val. apply filter_In. split; [exact Hin|]. cbn. now apply negb_true_iff, Z.eqb_neq.
Qed.

(* ---- the invariant is preserved by every accepted event ---- *)
Theorem lapply_inv e s s' : inv s -> lapply e s = Some s' -> inv s'.
Proof.
  unfold inv. intros (Hr & Hh & Hrun). destruct e as [p f|p f|p f|p f|p f|p f|p]; cbn [lapply].
  - (* acquired *)
    destruct (has_key f (holder s)) eqn:E; [discriminate|]. intro H. inversion H; subst; cbn.
    split; [exact Hr|]. split.
    + constructor; [now apply has_key_false|exact Hh].
    + intros f0 p0 Hin. specialize (Hrun _ _ Hin). unfold has_key in *. cbn.
      destruct (Z.eqb f f0); [reflexivity|exact Hrun].
  - intro H. inversion H; subst. auto.
  - (* release *)
    destruct (lookup f (holder s)) as [q|] eqn:L; [|discriminate].
    destruct (Z.eqb q p) eqn:E1.
    2:{ (* unlock by a force-owner: the lock table is untouched *)
        destruct (mem p f (forced s)); [|discriminate]. intro H. inversion H; subst; cbn. auto. }
    destruct (negb (has_key f (running s))) eqn:E2; [|discriminate].
    apply negb_true_iff in E2.
    intro H. inversion H; subst; cbn. split; [exact Hr|]. split.
    + rewrite remove_key_fst. now apply NoDup_filter.
    + intros f0 p0 Hin. assert (f0 <> f).
      { intro; subst. apply has_key_false in E2. apply E2. apply in_map_iff. now exists (f, p0). }
      rewrite has_key_remove_other by assumption. eauto.
  - (* forced *)
    destruct (has_key f (holder s)); [|discriminate]. intro H. inversion H; subst; cbn. auto.
  - (* job start *)
    destruct (has_key f (running s)) eqn:E; [discriminate|].
    destruct (lookup f (holder s)) as [q|] eqn:L; [|discriminate].
    destruct (Z.eqb q p || mem p f (forced s)); [|discriminate].
    intro H. inversion H; subst; cbn. split; [|split; [exact Hh|]].
    + constructor; [now apply has_key_false|exact Hr].
    + intros f0 p0 [Heq|Hin]; [inversion Heq; subst|eauto].
      unfold has_key. now rewrite L.
  - (* job done *)
    destruct (mem f p (running s)) eqn:E; [|discriminate].
    intro H. inversion H; subst; cbn. split; [|split; [exact Hh|]].
    + rewrite remove_key_fst. now apply NoDup_filter.
    + intros f0 p0 Hin. apply in_remove_key in Hin as [Hin _]. eauto.
  - (* process exit: it neither runs nor protects a running script *)
    match goal with |- context [existsb ?g (running s)] => destruct (existsb g (running s)) eqn:E end; [discriminate|].
    intro H. inversion H; subst; cbn. split; [exact Hr|]. split.
    + unfold remove_val. clear -Hh. induction (holder s) as [|[a b] l IH]; cbn in *; [constructor|].
      inversion Hh; subst. destruct (negb (Z.eqb b p)); cbn; [constructor|]; auto.
      intro Hin. apply in_map_iff in Hin as ([a' b'] & Ea & Hin). apply filter_In in Hin as [Hin _].
      cbn in Ea; subst. apply H1. apply in_map_iff. now exists (a, b').
    + intros f0 p0 Hin. pose proof (Hrun _ _ Hin) as Hk.
      assert (Hnot : (Z.eqb (snd (f0, p0)) p
                      || match lookup (fst (f0, p0)) (holder s) with Some q => Z.eqb q p | None => false end) = false).
      { destruct (_ || _) eqn:X; [|reflexivity]. exfalso.
        assert (existsb (fun x => Z.eqb (snd x) p
                   || match lookup (fst x) (holder s) with Some q => Z.eqb q p | None => false end) (running s) = true)
          by (apply existsb_exists; eauto). congruence. }
      apply orb_false_iff in Hnot as [_ Hq]. cbn [fst] in Hq.
      unfold has_key in Hk. destruct (lookup f0 (holder s)) as [q|] eqn:L; [|discriminate].
      apply Z.eqb_neq in Hq. eapply holder_of_remove_val; [exact Hh|apply lookup_in; exact L|exact Hq].
Qed.

Theorem lrun_inv es : forall s s', inv s -> lrun es s = Some s' -> inv s'.
Proof.
  induction es as [|e es IH]; intros s s' Hs H; cbn in H; [inversion H; subst; exact Hs|].
  destruct (lapply e s) as [s1|] eqn:E; [|discriminate].
  eapply IH; [|exact H]. eapply lapply_inv; eauto.
Qed.

Lemma inv_empty : inv empty.
Proof. unfold inv, empty. cbn. repeat split; try constructor. intros f p []. Qed.

(* the statement of C06 on every accepted trace: never two running scripts for
   one file id, and each running script's lock is held by a live process *)
Theorem mutual_exclusion es s :
  lrun es empty = Some s ->
  (forall f p q, In (f, p) (running s) -> In (f, q) (running s) -> p = q)
  /\ (forall f p, In (f, p) (running s) -> exists q, In (f, q) (holder s)).
Proof.
  intro H. pose proof (lrun_inv _ _ _ inv_empty H) as (Hr & Hh & Hrun). split.
  - intros f p q H1 H2. clear -Hr H1 H2. induction (running s) as [|[a b] l IH]; cbn in *; [tauto|].
    inversion Hr; subst. destruct H1 as [E1|H1], H2 as [E2|H2].
    + congruence.
    + inversion E1; subst. exfalso. apply H3. apply in_map_iff. now exists (f, q).
    + inversion E2; subst. exfalso. apply H3. apply in_map_iff. now exists (f, p).
    + auto.
  - intros f p Hin. specialize (Hrun _ _ Hin). apply has_key_in, in_map_iff in Hrun as ([a q] & E & Hq).
    cbn in E; subst. eauto.
Qed.

(* the result of an execution is recorded before the lock can be released:
   a release event of the lock's holder is accepted only when no script for
   that file id is running; any other accepted release (the unlock call of a
   redo-unlocked child that merely force-owns the lock) leaves the lock held *)
Theorem release_after_record p f s s' :
  lapply (LRelease p f) s = Some s' ->
  has_key f (running s) = false \/ (holder s' = holder s /\ running s' = running s).
Proof.
  cbn [lapply]. destruct (lookup f (holder s)) as [q|]; [|discriminate].
  destruct (Z.eqb q p).
  - destruct (negb (has_key f (running s))) eqn:E; [|discriminate]. intros _. left. now apply negb_true_iff in E.
  - destruct (mem p f (forced s)); [|discriminate]. intro H. inversion H; subst. right. split; reflexivity.
Qed.
