From Coq Require Import ZArith List Bool Lia ZifyBool.
From Redo Require Import Sched.Loop.
Import ListNotations.
Open Scope Z_scope.

Ltac split_ifs :=
  repeat match goal with
  | |- context [if ?c then _ else _] => let E := fresh "E" in destruct c eqn:E
  end.

(* every operation the code performs keeps the book within bounds, and no
   assertion can fail: pstep never returns None from a state satisfying binv *)
Theorem pstep_safe e b : binv b -> exists b', pstep e b = Some b' /\ binv b'.
Proof.
  destruct b as [m c k]. unfold binv. cbn [my ch kids]. intros (Hm & Hc & Hk).
  assert (Hm' : m = 0 \/ m = 1) by lia. assert (Hc' : c = 0 \/ c = 1) by lia.
  destruct Hm' as [-> | ->], Hc' as [-> | ->]; destruct e;
    cbn [pstep my ch kids create1 release1 release_n release_except_mine Z.to_nat Z.sub Z.add
         Z.ltb Z.leb Z.eqb Z.compare Pos.compare Pos.compare_cont Z.opp Z.pos_sub Pos.to_nat Pos.iter_op
         Nat.add andb orb negb Pos.pred_double Z.succ_double Z.pred_double Z.double Pos.add Pos.succ Pos.add_carry Pos.pred];
    split_ifs;
    cbn [pstep my ch kids create1 release1 release_n release_except_mine Z.to_nat Z.sub Z.add
         Z.ltb Z.leb Z.eqb Z.compare Pos.compare Pos.compare_cont Z.opp Z.pos_sub Pos.to_nat Pos.iter_op
         Nat.add andb orb negb Pos.pred_double Z.succ_double Z.pred_double Z.double Pos.add Pos.succ Pos.add_carry Pos.pred] in *;
    try discriminate;
    try (eexists; split; [reflexivity | cbn [my ch kids]; lia]).
  change (Pos.to_nat 1) with 1%nat. cbn [release_n release1 my ch kids Z.ltb Z.compare Z.sub Z.add Z.opp Z.pos_sub Pos.pred_double].
  eexists; split; [reflexivity | cbn [my ch kids]; lia].
Qed.

Theorem prun_safe es : forall b, binv b -> exists b', prun es b = Some b' /\ binv b'.
Proof.
  induction es as [|e es IH]; intros b Hb; cbn [prun]; [eauto|].
  destruct (pstep_safe e b Hb) as (b1 & E & Hb1). rewrite E. auto.
Qed.

Lemma binv_start : binv start_book.
Proof. unfold binv, start_book. cbn. lia. Qed.

(* the statement for a whole process: from the book a redo starts with, no
   sequence of the operations its code performs can make an assertion fail *)
Corollary no_token_assertion_fails es : exists b', prun es start_book = Some b' /\ binv b'.
Proof. apply prun_safe, binv_start. Qed.

(* The book before fix F81: a cheat was counted even on top of an unpaid one.
   The sequence found by a bug-hunting agent on the implementation -- give the
   token away for a lock wait, cheat, start a job with the cheated token, reap
   it through a cheat byte of its own, cheat again, exit -- fails the assertion
   `cheats <= my_tokens` ("mytokens=1, cheats=2"); with the fix it is safe. *)
Definition pstep_before_F81 (e : lev) (b : book) : option book :=
  match e with
  | PCheat => if Z.eqb (my b) 0 && Z.eqb (kids b) 0
              then Some {| my := 1; ch := ch b + 1; kids := kids b |} else Some b
  | _ => pstep e b
  end.
Fixpoint prun_before_F81 (es : list lev) (b : book) : option book :=
  match es with
  | [] => Some b
  | e :: es' => match pstep_before_F81 e b with Some b' => prun_before_F81 es' b' | None => None end
  end.
Definition double_cheat : list lev := [PReleaseMine; PCheat; PStart; PReapEat; PCheat; PExit].
Lemma double_cheat_refuted_before_F81 : prun_before_F81 double_cheat start_book = None.
Proof. vm_compute. reflexivity. Qed.
(* with the fix the second PCheat is refused (the process goes on waiting), a real
   token arrives, and the exit is safe *)
Definition debt_repaid : list lev := [PReleaseMine; PCheat; PStart; PReapEat; PCheat; PRead; PExit].
Lemma debt_repaid_safe : prun debt_repaid start_book = Some {| my := 1; ch := 1; kids := 0 |}.
Proof. vm_compute. reflexivity. Qed.
