From Coq Require Import ZArith List Bool Lia.
Import ListNotations.
From Redo Require Import Sched.OnceRun.
Open Scope Z_scope.

Lemma key_eqb_eq a b : key_eqb a b = true <-> a = b.
Proof.
  destruct a as [a1 a2], b as [b1 b2]. unfold key_eqb. cbn [fst snd].
  rewrite andb_true_iff, !Z.eqb_eq. split; [intros [-> ->]; reflexivity|intro H; inversion H; auto].
Qed.

Lemma olookup_remove_same {A} k (l : list (Z * A)) : olookup k (oremove k l) = None.
Proof.
  induction l as [|[a b] l IH]; cbn; [reflexivity|].
  destruct (Z.eqb a k) eqn:E; cbn; [exact IH|]. rewrite E. exact IH.
Qed.
Lemma olookup_remove_other {A} k k' (l : list (Z * A)) : k <> k' -> olookup k (oremove k' l) = olookup k l.
Proof.
  intro H. induction l as [|[a b] l IH]; cbn; [reflexivity|].
  destruct (Z.eqb a k') eqn:E; cbn.
  - apply Z.eqb_eq in E. subst a. destruct (Z.eqb k' k) eqn:E2; [apply Z.eqb_eq in E2; congruence|exact IH].
  - destruct (Z.eqb a k); [reflexivity|exact IH].
Qed.
Lemma olookup_cons_same {A} k (v : A) l : olookup k ((k, v) :: l) = Some v.
Proof. cbn. rewrite Z.eqb_refl. reflexivity. Qed.
Lemma olookup_cons_other {A} k k' (v : A) l : k <> k' -> olookup k ((k', v) :: l) = olookup k l.
Proof. intro H. cbn. destruct (Z.eqb k' k) eqn:E; [apply Z.eqb_eq in E; congruence|reflexivity]. Qed.
Lemma olookup_set_same f p ph l : olookup f (set_phase f p ph l) = Some (p, ph).
Proof. apply olookup_cons_same. Qed.
Lemma olookup_set_other g f p ph l : g <> f -> olookup g (set_phase f p ph l) = olookup g l.
Proof. intro H. unfold set_phase. rewrite olookup_cons_other, olookup_remove_other by congruence. reflexivity. Qed.

(* run r "has" file f: the row carries r's mark, or r's script for f is running *)
Definition has (r f : Z) (s : ost) : bool :=
  marked_by r f s
  || match olookup f (locks s) with Some (_, PhBuild r0) => Z.eqb r0 r | _ => false end.

(* the invariant: between two starts of (r, f) some other run recorded f *)
Definition oinv (s : ost) : Prop :=
  forall r f, has_newer r f (dones s) = true
              \/ (kcount (r, f) (starts s) <= foreign r f (dones s) + (if has r f s then 1 else 0))%nat.

Lemma kcount_cons_other k x l : key_eqb k x = false -> kcount k (x :: l) = kcount k l.
Proof. intro H. cbn. rewrite H. reflexivity. Qed.

Lemma has_newer_mono r f k l : has_newer r f l = true -> has_newer r f (k :: l) = true.
Proof. intro H. destruct k as [r' f']. cbn. rewrite H. apply orb_true_r. Qed.

Theorem oapply_inv e s s' : oinv s -> oapply e s = Some s' -> oinv s'.
Proof.
  intros I H. destruct e as [p f|r f|r f|r f|p f]; cbn [oapply] in H.
  - (* acquire: f was free, nobody was building it *)
    destruct (olookup f (locks s)) eqn:El; [discriminate|]. inversion H; subst; clear H.
    intros r g. destruct (I r g) as [N|B]; [left; exact N|right].
    unfold has, marked_by in *. cbn [locks mark dones starts] in *.
    destruct (Z.eq_dec g f) as [->|Hg].
    + rewrite olookup_cons_same. rewrite El in B. exact B.
    + rewrite olookup_cons_other by congruence. exact B.
  - (* start *)
    destruct (olookup f (locks s)) as [[p [|r0|]]|] eqn:El; try discriminate.
    destruct (marked_by r f s && negb (has_newer r f (dones s))) eqn:Em; [discriminate|]. inversion H; subst; clear H.
    intros r' g. cbn [dones]. destruct (I r' g) as [N|B]; [left; exact N|].
    destruct (Z.eq_dec g f) as [->|Hg].
    + destruct (Z.eq_dec r' r) as [->|Hr].
      * apply andb_false_iff in Em as [Em|Em]; [|left; apply negb_false_iff in Em; exact Em].
        right. unfold has, marked_by in *. cbn [locks mark dones starts kcount] in *.
        rewrite olookup_set_same. rewrite El in B.
        assert (key_eqb (r, f) (r, f) = true) as -> by (apply key_eqb_eq; reflexivity).
        rewrite Em in B. cbn [orb] in B. rewrite Z.eqb_refl, orb_true_r. lia.
      * right. unfold has, marked_by in *. cbn [locks mark dones starts kcount] in *.
        rewrite olookup_set_same. rewrite El in B.
        assert (key_eqb (r', f) (r, f) = false) as ->.
        { destruct (key_eqb (r', f) (r, f)) eqn:E; [apply key_eqb_eq in E; inversion E; congruence|reflexivity]. }
        assert (Z.eqb r r' = false) as -> by (apply Z.eqb_neq; congruence).
        rewrite orb_false_r in *. exact B.
    + right. unfold has, marked_by in *. cbn [locks mark dones starts kcount] in *.
      assert (key_eqb (r', g) (r, f) = false) as ->.
      { destruct (key_eqb (r', g) (r, f)) eqn:E; [apply key_eqb_eq in E; inversion E; congruence|reflexivity]. }
      rewrite olookup_set_other by congruence. exact B.
  - (* force: not counted, the file now runs for r *)
    destruct (olookup f (locks s)) as [[p [|r0|]]|] eqn:El; try discriminate. inversion H; subst; clear H.
    intros r' g. cbn [dones]. destruct (I r' g) as [N|B]; [left; exact N|right].
    unfold has, marked_by in *. cbn [locks mark dones starts] in *.
    destruct (Z.eq_dec g f) as [->|Hg].
    + rewrite olookup_set_same. rewrite El in B. rewrite orb_false_r in B.
      destruct (match olookup f (mark s) with Some r1 => Z.eqb r1 r' | None => false end); cbn [orb] in *; [exact B|].
      destruct (Z.eqb r r'); lia.
    + rewrite olookup_set_other by congruence. exact B.
  - (* done: r takes the mark of f; for every other run this is a foreign record *)
    destruct (olookup f (locks s)) as [[p [|r0|]]|] eqn:El; try discriminate.
    destruct (Z.eqb r0 r) eqn:Er; [|discriminate]. apply Z.eqb_eq in Er. subst r0. inversion H; subst; clear H.
    intros r' g. cbn [dones]. destruct (I r' g) as [N|B]; [left; apply has_newer_mono; exact N|right].
    unfold has, marked_by in *. cbn [locks mark dones starts foreign] in *.
    destruct (Z.eq_dec g f) as [->|Hg].
    + rewrite olookup_set_same, olookup_cons_same, Z.eqb_refl. rewrite El in B. cbn [andb].
      destruct (Z.eq_dec r' r) as [->|Hr].
      * rewrite Z.eqb_refl. cbn [negb orb]. rewrite Z.eqb_refl, orb_true_r in B. lia.
      * assert (Z.eqb r r' = false) as E1 by (apply Z.eqb_neq; congruence). rewrite E1 in *.
        cbn [negb orb]. rewrite orb_false_r in B.
        destruct (match olookup f (mark s) with Some r1 => Z.eqb r1 r' | None => false end); lia.
    + assert (Z.eqb f g = false) as -> by (apply Z.eqb_neq; congruence). cbn [andb].
      rewrite olookup_set_other, olookup_cons_other, olookup_remove_other by congruence. exact B.
  - (* release: only from Hold or Recorded *)
    destruct (olookup f (locks s)) as [[q ph]|] eqn:El; [|discriminate].
    assert (Hph : forall r0, ph <> PhBuild r0) by (intros r0 ->; discriminate).
    assert (H' : (if Z.eqb q p then Some {| locks := oremove f (locks s); mark := mark s; dones := dones s;
                                           starts := starts s; fstarts := fstarts s |} else None) = Some s').
    { destruct ph; [exact H|discriminate|exact H]. }
    destruct (Z.eqb q p); [|discriminate]. inversion H'; subst; clear H' H.
    intros r' g. cbn [dones]. destruct (I r' g) as [N|B]; [left; exact N|right].
    unfold has, marked_by in *. cbn [locks mark dones starts] in *.
    destruct (Z.eq_dec g f) as [->|Hg].
    + rewrite olookup_remove_same. rewrite El in B.
      destruct ph as [|r0|]; [exact B|exfalso; eapply Hph; reflexivity|exact B].
    + rewrite olookup_remove_other by congruence. exact B.
Qed.

Lemma oinv_init : oinv oinit.
Proof. intros r f. right. cbn. lia. Qed.

Theorem orun_inv es : forall s s', oinv s -> orun es s = Some s' -> oinv s'.
Proof.
  induction es as [|e es IH]; intros s s' Hs H; cbn in H; [inversion H; subst; exact Hs|].
  destruct (oapply e s) as [s1|] eqn:E; [|discriminate]. eapply IH; [|exact H]. eapply oapply_inv; eauto.
Qed.

(* whatever the number of processes and runs and however their steps
   interleave: unless a LATER run has recorded the target, between two starts of
   its script by redo-ifchange in one run another run has recorded it *)
Theorem starts_bounded es s r f :
  orun es oinit = Some s -> has_newer r f (dones s) = false ->
  (kcount (r, f) (starts s) <= foreign r f (dones s) + 1)%nat.
Proof.
  intros H Hn. destruct (orun_inv es oinit s oinv_init H r f) as [N|B]; [congruence|].
  destruct (has r f s); lia.
Qed.

(* no other invocation active: every recorded result is of run r *)
Lemma orun_single_run r : forall es s s',
  forallb (ev_of_run r) es = true -> orun es s = Some s' ->
  (forall k, In k (dones s) -> fst k = r) -> (forall k, In k (dones s') -> fst k = r).
Proof.
  induction es as [|e es IH]; intros s s' Hr H Hd; cbn in H; [inversion H; subst; exact Hd|].
  cbn in Hr. apply andb_true_iff in Hr as [He Hr].
  destruct (oapply e s) as [s1|] eqn:E; [|discriminate].
  apply (IH s1 s' Hr H). clear IH H.
  destruct e as [p f|r' f|r' f|r' f|p f]; cbn [oapply] in E.
  - destruct (olookup f (locks s)); [discriminate|]. inversion E; subst. exact Hd.
  - destruct (olookup f (locks s)) as [[p [|r0|]]|]; try discriminate.
    destruct (marked_by r' f s && negb (has_newer r' f (dones s))); [discriminate|]. inversion E; subst. exact Hd.
  - destruct (olookup f (locks s)) as [[p [|r0|]]|]; try discriminate. inversion E; subst. exact Hd.
  - destruct (olookup f (locks s)) as [[p [|r0|]]|]; try discriminate.
    destruct (Z.eqb r0 r'); [|discriminate]. inversion E; subst. cbn [dones].
    intros k [<-|Hk]; [cbn in *; apply Z.eqb_eq in He; exact He|apply Hd, Hk].
  - destruct (olookup f (locks s)) as [[q ph]|]; [|discriminate].
    destruct ph; try discriminate; destruct (Z.eqb q p); try discriminate; inversion E; subst; exact Hd.
Qed.

Lemma foreign_zero r f l : (forall k, In k l -> fst k = r) -> foreign r f l = 0%nat.
Proof.
  induction l as [|[r' f'] l IH]; intro H; cbn; [reflexivity|].
  assert (r' = r) by (apply (H (r', f')); now left). subst r'.
  rewrite Z.eqb_refl. cbn [negb]. rewrite andb_false_r. rewrite IH; [reflexivity|].
  intros k Hk. apply H. now right.
Qed.
Lemma newer_none r f l : (forall k, In k l -> fst k = r) -> has_newer r f l = false.
Proof.
  induction l as [|[r' f'] l IH]; intro H; cbn; [reflexivity|].
  assert (r' = r) by (apply (H (r', f')); now left). subst r'.
  rewrite Z.ltb_irrefl, andb_false_r. cbn [orb]. apply IH. intros k Hk. apply H. now right.
Qed.

(* C07: within one invocation, with no other invocation active, each target's
   script is started at most once however many dependents request it, for
   every number of processes and every interleaving *)
Theorem at_most_once_per_run es s r f :
  forallb (ev_of_run r) es = true -> orun es oinit = Some s ->
  (kcount (r, f) (starts s) <= 1)%nat.
Proof.
  intros Hr H.
  assert (Hd : forall k, In k (dones s) -> fst k = r) by (apply (orun_single_run r es oinit s Hr H); intros k []).
  pose proof (starts_bounded es s r f H (newer_none r f _ Hd)) as B.
  rewrite (foreign_zero r f (dones s) Hd) in B. exact B.
Qed.

(* with a second, later invocation "once per run" is false of the model, as of
   the binaries: run 1 builds f, run 2 records f, and run 1 starts f again for
   every further request *)
Theorem once_per_run_refuted_with_two_runs :
  exists es s, orun es oinit = Some s /\ kcount (1, 5) (starts s) = 3%nat.
Proof.
  exists [OAcquire 10 5; OStart 1 5; ODone 1 5; ORelease 10 5;
          OAcquire 20 5; OStart 2 5; ODone 2 5; ORelease 20 5;
          OAcquire 11 5; OStart 1 5; ODone 1 5; ORelease 11 5;
          OAcquire 12 5; OStart 1 5].
  eexists. split; [vm_compute; reflexivity|reflexivity].
Qed.
