(* Ties of the protocol models to the CURRENT source: Anchors.v is regenerated
   by tools/anchors.py on every run; these lemmas stop compiling when the
   source no longer has the constant or the order of steps a model assumes. *)
From Coq Require Import ZArith String List Bool.
From Redo Require Import Sqlite.Wal Anchors Sched.BuildLock.
Import ListNotations.
Open Scope Z_scope.

(* the model's build-lock offset is the source's BUILD_LOCK_MAGIC, and build-lock
   ids lie above the log-lock ids (the trace replay tells them apart by range) *)
Lemma bmagic_is_the_sources : bmagic = build_lock_magic /\ log_lock_magic < build_lock_magic.
Proof. split; reflexivity. Qed.

(* what Sched/BuildLock.v (both layers) and Sched/Loop.v (PCheat, PStart) assume
   about the order of steps, read off the source *)
Lemma protocol_facts_hold : forallb snd protocol_facts = true.
Proof. reflexivity. Qed.
Lemma protocol_facts_named :
  map fst protocol_facts =
  ["build_lock_taken_before_start_commit"; "build_lock_held_until_result_recorded";
   "walk_probes_build_lock_before_reading_rows"; "cheat_refused_while_in_debt";
   "job_pipe_made_before_token_destroyed"; "own_jobserver_slots_fit_select"]%string.
Proof. reflexivity. Qed.

(* every transaction of builder.rs (the walks of builds and the builders' commits)
   is BEGIN IMMEDIATE: the mutual exclusion layer 2 of BuildLock.v assumes *)
Definition immediate_b (p : prog) : bool := match pmode p with Immediate => true | Deferred => false end.
Lemma builder_transactions_are_immediate :
  forallb (fun x => if String.eqb (fst x) "builder.rs" then immediate_b (snd x) else true) sites = true
  /\ existsb (fun x => String.eqb (fst x) "builder.rs") sites = true.
Proof. split; reflexivity. Qed.
