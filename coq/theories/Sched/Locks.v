(* The target-lock protocol of builder::run as reported by the hooked
   implementation: who holds the lock of a file id, whose script is running.
   Lock events are written by the implementation AFTER an acquisition and
   BEFORE a release, so the order of lines in the trace is a possible real
   order.  MODEL FILE: definitions only. *)
From Coq Require Import ZArith List Bool.
Import ListNotations.
Open Scope Z_scope.

Record ls := {
  holder : list (Z * Z);     (* fid -> pid holding the fcntl lock *)
  running : list (Z * Z);    (* (fid, pid): pid's script for fid is running (job started, result not recorded) *)
  forced : list (Z * Z)      (* (pid, fid): pid treats fid as owned because an ancestor holds it (redo-unlocked) *)
}.

Definition empty : ls := {| holder := []; running := []; forced := [] |}.

Fixpoint lookup (k : Z) (l : list (Z * Z)) : option Z :=
  match l with [] => None | (a, b) :: l' => if Z.eqb a k then Some b else lookup k l' end.
Definition remove_key (k : Z) (l : list (Z * Z)) : list (Z * Z) :=
  filter (fun x => negb (Z.eqb (fst x) k)) l.
Definition remove_val (v : Z) (l : list (Z * Z)) : list (Z * Z) :=
  filter (fun x => negb (Z.eqb (snd x) v)) l.
Definition mem (a b : Z) (l : list (Z * Z)) : bool :=
  existsb (fun x => Z.eqb (fst x) a && Z.eqb (snd x) b) l.
Definition has_key (k : Z) (l : list (Z * Z)) : bool :=
  match lookup k l with Some _ => true | None => false end.

Inductive lev :=
| LAcquired (pid fid : Z)    (* try_lock succeeded / wait_lock returned *)
| LBusy (pid fid : Z)        (* try_lock found it taken *)
| LRelease (pid fid : Z)     (* unlock (explicit or on drop), reported before the system call *)
| LForced (pid fid : Z)      (* force_owned in unlocked mode *)
| LJobStart (pid fid : Z)    (* the script for fid is about to be forked *)
| LJobDone (pid fid : Z)     (* its result has been recorded and committed *)
| LProcExit (pid : Z).       (* the process ended: the kernel drops its locks *)

(* [None] = the protocol is broken at this event *)
Definition lapply (e : lev) (s : ls) : option ls :=
  match e with
  | LAcquired p f =>
      if has_key f (holder s) then None
      else Some {| holder := (f, p) :: holder s; running := running s; forced := forced s |}
  | LBusy p f => Some s
  | LRelease p f =>
      match lookup f (holder s) with
      | Some q => if Z.eqb q p
                  then if negb (has_key f (running s))
                       then Some {| holder := remove_key f (holder s); running := running s; forced := forced s |}
                       else None
                  else if mem p f (forced s)
                  (* a redo-unlocked child drops its force-owned Lock object: fcntl(F_UNLCK) by a
                     process that does not hold the lock changes nothing; the ancestor still holds it *)
                  then Some {| holder := holder s; running := running s;
                               forced := filter (fun x => negb (Z.eqb (fst x) p && Z.eqb (snd x) f)) (forced s) |}
                  else None
      | None => None
      end
  | LForced p f =>
      if has_key f (holder s)
      then Some {| holder := holder s; running := running s; forced := (p, f) :: forced s |}
      else None
  | LJobStart p f =>
      if has_key f (running s) then None else
      match lookup f (holder s) with
      | Some q => if Z.eqb q p || mem p f (forced s)
                  then Some {| holder := holder s; running := (f, p) :: running s; forced := forced s |}
                  else None
      | None => None
      end
  | LJobDone p f =>
      if mem f p (running s)
      then Some {| holder := holder s; running := remove_key f (running s); forced := forced s |}
      else None
  | LProcExit p =>
      (* a script abandoned by its redo, or by the (ancestor) process whose lock protects it *)
      if existsb (fun x => Z.eqb (snd x) p
                           || match lookup (fst x) (holder s) with Some q => Z.eqb q p | None => false end)
                 (running s) then None
      else Some {| holder := remove_val p (holder s); running := running s;
                   forced := filter (fun x => negb (Z.eqb (fst x) p)) (forced s) |}
  end.

Fixpoint lrun (es : list lev) (s : ls) : option ls :=
  match es with
  | [] => Some s
  | e :: es' => match lapply e s with Some s' => lrun es' s' | None => None end
  end.

(* the invariant: at most one running script per file id, and whenever a
   script runs somebody holds the lock of its file id *)
Definition inv (s : ls) : Prop :=
  NoDup (map fst (running s)) /\ NoDup (map fst (holder s))
  /\ forall f p, In (f, p) (running s) -> has_key f (holder s) = true.
