From Coq Require Import ZArith Lia.
From Redo Require Import Base.Bytes Base.BytesProofs Build.Model Build.FsLemmas Build.RecordProofs Crash.Effects.

(* every state but the last one still shows the old target, untouched *)
Theorem install_old_until_last t stdout has_tmp w w' :
  In w' (removelast (install_prefixes t stdout has_tmp w)) ->
  fs_get (fs w') t = fs_get (fs w) t.
Proof.
  unfold install_prefixes. destruct stdout as [c|], has_tmp; cbn [removelast]; intros H;
    repeat (destruct H as [<-|H]; [|]); try contradiction; try reflexivity.
  - apply get_remove_other, tmp_of_neq.
  - rewrite get_write_other by apply tmp_of_neq. apply get_remove_other, tmp_of_neq.
Qed.

(* the last state is the complete new target: exactly what record_new_state leaves *)
Theorem install_last_is_record runid t f sf before rc stdout has_tmp w :
  snd (record_new_state runid t f sf before rc stdout has_tmp w) = 0%Z ->
  fs (fst (record_new_state runid t f sf before rc stdout has_tmp w))
  = fs (last (install_prefixes t stdout has_tmp w) w).
Proof.
  intro H. rewrite record_status in H. unfold status_of in H.
  unfold record_new_state. fold (modified_b before (fs_get (fs w) t)).
  destruct (modified_b before (fs_get (fs w) t)); [discriminate|].
  assert (Hrv : (if has_tmp && match stdout with Some _ => true | None => false end then 207%Z else rc) = 0%Z) by exact H.
  rewrite Hrv. cbn [Z.eqb]. unfold install_prefixes.
  destruct stdout as [c|], has_tmp; cbn [andb] in Hrv; try discriminate;
    match goal with |- context [if ?b then _ else _] => destruct b end; reflexivity.
Qed.

(* no state a kill can leave shows anything but the complete old or the complete new target *)
Corollary install_old_or_new t stdout has_tmp w w' :
  In w' (install_prefixes t stdout has_tmp w) ->
  fs_get (fs w') t = fs_get (fs w) t
  \/ fs_get (fs w') t = fs_get (fs (last (install_prefixes t stdout has_tmp w) w)) t.
Proof.
  intro H. unfold install_prefixes in *.
  destruct stdout as [c|], has_tmp; cbn [last] in *;
    repeat (destruct H as [<-|H]; [|]); try contradiction; auto; left.
  - apply get_remove_other, tmp_of_neq.
  - rewrite get_write_other by apply tmp_of_neq. apply get_remove_other, tmp_of_neq.
Qed.

(* a failing job never touches the target, whenever it is interrupted *)
Theorem fail_prefixes_keep_target t w w' :
  In w' (fail_prefixes t w) -> fs_get (fs w') t = fs_get (fs w) t.
Proof.
  unfold fail_prefixes. intros [<-|[<-|[]]]; [reflexivity|]. apply get_remove_other, tmp_of_neq.
Qed.
