(* The file-system effects of finishing a job (record_new_state), one by one:
   the states a kill can leave behind.  The database part is one transaction
   that becomes visible only at its commit (A-SQLITE-ATOMIC), i.e. after all of
   these effects.  MODEL FILE: definitions only. *)
From Coq Require Import ZArith.
From Redo Require Export Base.Bytes Build.Model.

(* the successive worlds while a successful job installs its output:
   stdout case:  w ; unlink $3 ; create $3 with the bytes ; rename $3 -> target
   $3 case:      w ; rename $3 -> target
   no output:    w ; unlink target *)
Definition install_prefixes (t : name) (stdout : option (list N)) (has_tmp : bool) (w : world) : list world :=
  match stdout, has_tmp with
  | Some content, false =>
      let w1 := remove_file w (tmp_of t) in
      let w2 := write_file w1 (tmp_of t) content None in
      [w; w1; w2; rename_file w2 (tmp_of t) t]
  | _, true => [w; rename_file w (tmp_of t) t]
  | None, false => [w; remove_file w t]
  end.

(* a failing job: w ; unlink $3 *)
Definition fail_prefixes (t : name) (w : world) : list world := [w; remove_file w (tmp_of t)].

(* the crash state of finding F8: the rename has happened, the commit has not *)
Definition crash_after_rename (t : name) (stdout : option (list N)) (has_tmp : bool) (w : world) : world :=
  last (install_prefixes t stdout has_tmp w) w.
