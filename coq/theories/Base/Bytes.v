(* Byte strings as lists of N; splitting on a separator and joining.
   MODEL FILE: definitions only (proofs are in BytesProofs.v). *)
From Coq Require Export List NArith Bool Lia.
Export ListNotations.
Open Scope N_scope.

Definition byte := N.
Definition bytes := list N.

Definition slash : N := 47.
Definition dot : N := 46.

Fixpoint bytes_eqb (a b : bytes) : bool :=
  match a, b with
  | [], [] => true
  | x :: a', y :: b' => N.eqb x y && bytes_eqb a' b'
  | _, _ => false
  end.

(* split_aux sep cur s: [cur] is the current component accumulated in
   reverse.  Always returns a non-empty list: split "" = [""] . *)
Fixpoint split_aux (sep : N) (cur : bytes) (s : bytes) : list bytes :=
  match s with
  | [] => [rev cur]
  | c :: s' => if N.eqb c sep then rev cur :: split_aux sep [] s'
               else split_aux sep (c :: cur) s'
  end.

Definition split (sep : N) (s : bytes) : list bytes := split_aux sep [] s.

Fixpoint join (sep : N) (cs : list bytes) : bytes :=
  match cs with
  | [] => []
  | [c] => c
  | c :: cs' => c ++ sep :: join sep cs'
  end.

Definition nosep (sep : N) (c : bytes) : bool := forallb (fun x => negb (N.eqb x sep)) c.

Fixpoint list_eqb {A} (eqb : A -> A -> bool) (a b : list A) : bool :=
  match a, b with
  | [], [] => true
  | x :: a', y :: b' => eqb x y && list_eqb eqb a' b'
  | _, _ => false
  end.

(* longest common prefix length *)
Fixpoint common_prefix {A} (eqb : A -> A -> bool) (a b : list A) : nat :=
  match a, b with
  | x :: a', y :: b' => if eqb x y then S (common_prefix eqb a' b') else O
  | _, _ => O
  end.

Fixpoint is_prefix (p s : bytes) : bool :=
  match p, s with
  | [], _ => true
  | x :: p', y :: s' => N.eqb x y && is_prefix p' s'
  | _ :: _, [] => false
  end.
