From Redo Require Import Base.Bytes.

Lemma bytes_eqb_eq a b : bytes_eqb a b = true <-> a = b.
Proof.
  revert b; induction a as [|x a IH]; intros [|y b]; cbn; split; intro H; try congruence; try discriminate.
  - apply andb_true_iff in H as [H1 H2]. apply N.eqb_eq in H1. apply IH in H2. congruence.
  - inversion H; subst. rewrite N.eqb_refl. cbn. now apply IH.
Qed.

Lemma bytes_eqb_refl a : bytes_eqb a a = true.
Proof. now apply bytes_eqb_eq. Qed.

Lemma bytes_eqb_neq a b : bytes_eqb a b = false <-> a <> b.
Proof.
  split; intro H.
  - intro E. apply bytes_eqb_eq in E. congruence.
  - destruct (bytes_eqb a b) eqn:E; [|reflexivity]. apply bytes_eqb_eq in E. contradiction.
Qed.

Lemma split_aux_nonempty sep cur s : split_aux sep cur s <> [].
Proof.
  revert cur; induction s as [|c s IH]; intro cur; cbn; [discriminate|].
  destruct (N.eqb c sep); [discriminate | apply IH].
Qed.

(* a prefix without separator moves into the accumulator *)
Lemma split_aux_app sep cur c s :
  nosep sep c = true ->
  split_aux sep cur (c ++ s) = split_aux sep (rev c ++ cur) s.
Proof.
  revert cur; induction c as [|x c IH]; intros cur H; cbn in *; [reflexivity|].
  apply andb_true_iff in H as [Hx Hc].
  apply negb_true_iff in Hx. rewrite Hx. rewrite IH by assumption.
  now rewrite <- app_assoc.
Qed.

Lemma split_aux_nosep sep cur s :
  nosep sep (rev cur) = true -> forallb (nosep sep) (split_aux sep cur s) = true.
Proof.
  revert cur; induction s as [|c s IH]; intros cur H; cbn.
  - now rewrite H.
  - destruct (N.eqb c sep) eqn:E; cbn.
    + rewrite H. cbn. now apply IH.
    + apply IH. cbn. unfold nosep in *. rewrite forallb_app, H. cbn. now rewrite E.
Qed.

Lemma split_nosep sep s : forallb (nosep sep) (split sep s) = true.
Proof. now apply split_aux_nosep. Qed.

Lemma split_join sep cs :
  cs <> [] -> forallb (nosep sep) cs = true -> split sep (join sep cs) = cs.
Proof.
  unfold split.
  induction cs as [|c cs IH]; intros Hne H; [congruence|].
  cbn in H. apply andb_true_iff in H as [Hc Hcs].
  destruct cs as [|c' cs'].
  - cbn. rewrite <- (app_nil_r c) at 1. rewrite split_aux_app by assumption.
    cbn. now rewrite app_nil_r, rev_involutive.
  - change (join sep (c :: c' :: cs')) with (c ++ sep :: join sep (c' :: cs')).
    rewrite split_aux_app by assumption. cbn [split_aux]. rewrite N.eqb_refl.
    rewrite app_nil_r, rev_involutive. f_equal. apply IH; [discriminate|assumption].
Qed.

Lemma join_split sep s : join sep (split sep s) = s.
Proof.
  unfold split.
  assert (G : forall cur, join sep (split_aux sep cur s) = rev cur ++ s).
  { induction s as [|c s IH]; intro cur; cbn.
    - now rewrite app_nil_r.
    - destruct (N.eqb c sep) eqn:E.
      + apply N.eqb_eq in E; subst c.
        pose proof (split_aux_nonempty sep [] s) as Hne.
        destruct (split_aux sep [] s) as [|d ds] eqn:Es; [congruence|].
        change (join sep (rev cur :: d :: ds)) with (rev cur ++ sep :: join sep (d :: ds)).
        rewrite <- Es, IH. reflexivity.
      + rewrite IH. cbn. now rewrite <- app_assoc. }
  apply (G []).
Qed.
