From Redo Require Import Base.Bytes Base.BytesProofs Paths.Norm Paths.NormProofs Paths.Rel Paths.Resolve.

(* ------------------------------------------------------------------ *)
(* normpath preserves the meaning of a path in any link-free tree      *)
Section TreeProofs.
  Variable dir : Type.
  Variable root : dir.
  Variable child : dir -> comp -> dir.
  Variable parent : dir -> dir.
  Hypothesis parent_root : parent root = root.
  Hypothesis parent_child : forall d n, good_name n = true -> parent (child d n) = d.

  Notation walk1 := (walk1 dir child parent).

  Lemma walk_step r st c d0 :
    (r = true -> d0 = root) ->
    stack_ok r st ->
    walk1 (fold_left walk1 (rev st) d0) c = fold_left walk1 (rev (step r st c)) d0.
  Proof.
    intros Hr Hst. unfold step, Resolve.walk1 at 1.
    destruct (is_empty c || is_dot c) eqn:E; [reflexivity|].
    destruct (is_dotdot c) eqn:Edd.
    - destruct st as [|top rest].
      + destruct r; cbn.
        * rewrite Hr by reflexivity. apply parent_root.
        * unfold Resolve.walk1. now rewrite E, Edd.
      + cbn in Hst. destruct Hst as [[Hg|(Htop & Hrf & Hall)] Hrest].
        * pose proof (good_not_special _ Hg) as (He & Hd & Hdd & _). rewrite Hdd.
          cbn [rev]. rewrite fold_left_app. cbn [fold_left].
          unfold Resolve.walk1 at 1. rewrite He, Hd, Hdd. cbn [orb]. now apply parent_child.
        * rewrite Htop. subst r. cbn [rev]. rewrite !fold_left_app. cbn [fold_left].
          set (X := walk1 _ top). unfold Resolve.walk1. now rewrite E, Edd.
    - cbn [rev]. rewrite fold_left_app. cbn [fold_left].
      set (X := fold_left _ (rev st) d0). unfold Resolve.walk1. now rewrite E, Edd.
  Qed.

  Lemma walk_fold r cs st d0 :
    (r = true -> d0 = root) ->
    forallb (nosep slash) cs = true -> stack_ok r st ->
    fold_left walk1 cs (fold_left walk1 (rev st) d0)
    = fold_left walk1 (rev (fold_left (step r) cs st)) d0.
  Proof.
    intro Hr. revert st; induction cs as [|c cs IH]; intros st H Hst; [reflexivity|].
    cbn in H. apply andb_true_iff in H as [H1 H2]. cbn [fold_left].
    rewrite (walk_step r) by assumption. apply IH; [assumption|]. now apply step_ok.
  Qed.

  Theorem normpath_preserves_resolve start s :
    resolve dir root child parent start (normpath s) = resolve dir root child parent start s.
  Proof.
    unfold resolve at 2. set (r := rooted s).
    set (d0 := if r then root else start).
    assert (Hr : r = true -> d0 = root) by (unfold d0; now intros ->).
    pose proof (walk_fold r (split slash s) [] d0 Hr (split_nosep _ _) I) as W.
    change (fold_left walk1 (rev []) d0) with d0 in W. fold d0. rewrite W. clear W.
    unfold normpath, clean_comps. fold r. set (st := fold_left (step r) (split slash s) []).
    assert (Hst : stack_ok r st) by (apply clean_comps_stack, split_nosep).
    assert (Hns : forallb (nosep slash) (rev st) = true)
      by (rewrite forallb_rev; eapply stack_ok_nosep; eauto).
    unfold resolve. destruct r eqn:Er.
    - cbn [render rooted]. rewrite N.eqb_refl. fold d0.
      unfold split. cbn [split_aux]. rewrite N.eqb_refl. cbn [rev fold_left].
      unfold Resolve.walk1 at 2. cbn [is_empty orb].
      destruct (rev st) as [|c cs'] eqn:Erev.
      + cbn. reflexivity.
      + fold (split slash (join slash (c :: cs'))).
        rewrite split_join by (auto; discriminate). reflexivity.
    - cbn [render]. destruct (rev st) as [|c cs'] eqn:Erev.
      + cbn. reflexivity.
      + rewrite (stack_ok_first_not_slash false st c cs' Hst Erev).
        rewrite split_join by (auto; discriminate). reflexivity.
  Qed.
End TreeProofs.

(* ------------------------------------------------------------------ *)
(* relpath then re-join gives the original location                    *)

Lemma fold_good r cs st :
  all_good cs = true -> fold_left (step r) cs st = rev cs ++ st.
Proof.
  revert st; induction cs as [|c cs IH]; intros st H; [reflexivity|].
  cbn in H. apply andb_true_iff in H as [Hc H]. cbn [fold_left rev].
  rewrite IH by assumption. rewrite <- app_assoc. cbn. f_equal.
  unfold step. apply good_not_special in Hc as (-> & -> & -> & _). reflexivity.
Qed.

Lemma all_good_firstn k cs : all_good cs = true -> all_good (firstn k cs) = true.
Proof.
  revert k; induction cs as [|c cs IH]; intros [|k] H; cbn in *; auto.
  apply andb_true_iff in H as [-> H]. cbn. auto.
Qed.
Lemma all_good_skipn k cs : all_good cs = true -> all_good (skipn k cs) = true.
Proof.
  revert k; induction cs as [|c cs IH]; intros [|k] H; cbn in *; auto.
  apply andb_true_iff in H as [_ H]. auto.
Qed.

(* popping n good names with n ".." *)
Lemma fold_pops a b :
  all_good a = true ->
  fold_left (step true) (repeat dotdot_c (length a)) (a ++ b) = b.
Proof.
  induction a as [|x a IH]; intro H; [reflexivity|].
  cbn in H. apply andb_true_iff in H as [Hx H]. cbn [length repeat fold_left app].
  unfold step at 2. cbn [is_empty is_dot is_dotdot dotdot_c bytes_eqb dot N.eqb Pos.eqb andb orb].
  apply good_not_special in Hx as (_ & _ & -> & _). now apply IH.
Qed.

Lemma common_prefix_firstn a b :
  firstn (common_prefix bytes_eqb a b) a = firstn (common_prefix bytes_eqb a b) b.
Proof.
  revert b; induction a as [|x a IH]; intros [|y b]; cbn; try reflexivity.
  destruct (bytes_eqb x y) eqn:E; [|reflexivity].
  apply bytes_eqb_eq in E. subst. cbn. now rewrite IH.
Qed.

Lemma common_prefix_le a b : (common_prefix bytes_eqb a b <= length b)%nat.
Proof.
  revert b; induction a as [|x a IH]; intros [|y b]; cbn; try lia.
  destruct (bytes_eqb x y); [specialize (IH b)|]; lia.
Qed.

Theorem relpath_rejoin tn bn :
  all_good tn = true -> all_good bn = true ->
  clean_comps true (bn ++ relpath_comps tn bn) = tn.
Proof.
  intros Ht Hb. unfold clean_comps, relpath_comps.
  set (k := common_prefix bytes_eqb tn bn).
  rewrite !fold_left_app. rewrite (fold_good true bn []) by assumption. rewrite app_nil_r.
  assert (Erev : rev bn = rev (skipn k bn) ++ rev (firstn k bn))
    by (rewrite <- rev_app_distr, firstn_skipn; reflexivity).
  rewrite Erev. clear Erev.
  replace (length bn - k)%nat with (length (rev (skipn k bn))).
  2:{ rewrite rev_length, skipn_length. reflexivity. }
  rewrite fold_pops.
  2:{ clear -Hb. assert (G : forall l, all_good l = true -> all_good (rev l) = true).
      { induction l as [|x l IH]; cbn; auto. intro H. apply andb_true_iff in H as [H1 H2].
        rewrite all_good_app, IH by assumption. cbn. now rewrite H1. }
      apply G, all_good_skipn, Hb. }
  rewrite fold_good by now apply all_good_skipn.
  rewrite <- rev_app_distr, rev_involutive.
  unfold k. rewrite <- common_prefix_firstn. apply firstn_skipn.
Qed.

(* Distinct cleaned locations get distinct keys (and equal ones equal keys):
   the key determines the target once the base is fixed. *)
Corollary relpath_comps_injective t1 t2 bn :
  all_good t1 = true -> all_good t2 = true -> all_good bn = true ->
  relpath_comps t1 bn = relpath_comps t2 bn -> t1 = t2.
Proof.
  intros H1 H2 Hb E.
  rewrite <- (relpath_rejoin t1 bn H1 Hb), <- (relpath_rejoin t2 bn H2 Hb). now rewrite E.
Qed.

(* names_of a normalised absolute path are all good *)
Lemma names_of_good p : all_good (names_of p) = true.
Proof.
  unfold names_of, clean_comps.
  pose proof (clean_comps_stack true (split slash p) (split_nosep _ _)) as H.
  pose proof (stack_ok_nf true _ H) as G. exact G.
Qed.

Section Keys.
  Variable canon : bytes -> option bytes.

  (* two spellings (possibly from two working directories) whose real,
     cleaned locations agree have the same database key *)
  Theorem same_location_same_key base cwd1 cwd2 n1 n2 :
    normpath (realdirpath canon cwd1 (abs_path cwd1 n1))
    = normpath (realdirpath canon cwd2 (abs_path cwd2 n2)) ->
    normpath (realdirpath canon cwd1 base) = normpath (realdirpath canon cwd2 base) ->
    db_key canon cwd1 base n1 = db_key canon cwd2 base n2.
  Proof. unfold db_key, relpath. intros -> ->. reflexivity. Qed.

  (* ... and different locations have different key component lists *)
  Theorem different_location_different_key base cwd n1 n2 :
    let loc n := names_of (normpath (realdirpath canon cwd (abs_path cwd n))) in
    let b := names_of (normpath (realdirpath canon cwd base)) in
    loc n1 <> loc n2 -> relpath_comps (loc n1) b <> relpath_comps (loc n2) b.
  Proof.
    intros loc b Hne E. apply Hne.
    eapply relpath_comps_injective; eauto; apply names_of_good.
  Qed.
End Keys.
