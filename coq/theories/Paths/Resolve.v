(* Specification side of C15: what a path *means* in a directory structure
   without symbolic links.  MODEL/SPEC FILE: definitions only. *)
From Redo Require Export Base.Bytes Paths.Norm.

Section Tree.
  Variable dir : Type.
  Variable root : dir.
  Variable child : dir -> comp -> dir.
  Variable parent : dir -> dir.

  Definition walk1 (d : dir) (c : comp) : dir :=
    if is_empty c || is_dot c then d
    else if is_dotdot c then parent d
    else child d c.

  Definition resolve (start : dir) (s : bytes) : dir :=
    fold_left walk1 (split slash s) (if rooted s then root else start).
End Tree.
