(* Model of redo::state::{relpath, realdirpath} (src/state.rs) and of the
   database key computed by File::from_name.  MODEL FILE: definitions only.

   [canon] is the operating system's canonicalize() on directory names
   (None = NotFound); it is a parameter of the model. *)
From Redo Require Export Base.Bytes Paths.Norm.

Definition dotdot_c : comp := [dot; dot].

(* index-free split at the last slash: (prefix including the slash, rest) *)
Fixpoint split_last_slash_aux (acc_dir acc_cur : bytes) (s : bytes) (seen : bool)
  : option (bytes * bytes) :=
  match s with
  | [] => if seen then Some (rev acc_dir, rev acc_cur) else None
  | c :: s' =>
      if N.eqb c slash
      then split_last_slash_aux (c :: acc_cur ++ acc_dir) [] s' true
      else split_last_slash_aux acc_dir (c :: acc_cur) s' seen
  end.
Definition split_last_slash (s : bytes) := split_last_slash_aux [] [] s false.

Section RealDir.
  Variable canon : bytes -> option bytes.
  Variable cwd : bytes.

  (* what Path::components() yields after the root of an absolute path:
     empty components and "." are dropped, ".." is kept *)
  Definition comps_of (p : bytes) : list comp :=
    filter (fun c => negb (is_empty c || is_dot c)) (split slash p).
  Definition prefix_str (cs : list comp) : bytes := slash :: join slash cs.

  (* realpath(3) without -e (fix F28): the longest prefix that exists is
     resolved -- prefixes of j, j-1, ..., 0 components are tried -- and the rest
     is appended and cleaned lexically *)
  Fixpoint resolve_prefix (cs : list comp) (j : nat) : option bytes :=
    match canon (prefix_str (firstn j cs)) with
    | Some p => Some (normpath (fold_left path_push (skipn j cs) p))
    | None => match j with O => None | S j' => resolve_prefix cs j' end
    end.

  (* realdirpath for the inputs relpath gives it (absolute paths). *)
  Definition realdirpath (t : bytes) : bytes :=
    match split_last_slash t with
    | None => t
    | Some (dname, fname) =>
        let d := match canon dname with
                 | Some p => p
                 | None =>
                     let a := abs_path cwd dname in
                     let cs := comps_of a in
                     match resolve_prefix cs (length cs - 1) with
                     | Some p => p
                     | None => normpath a
                     end
                 end in
        path_push d fname
    end.

  (* names of a cleaned absolute path: components after the root *)
  Definition names_of (p : bytes) : list comp :=
    clean_comps true (split slash p).

  Definition relpath_comps (tn bn : list comp) : list comp :=
    let k := common_prefix bytes_eqb tn bn in
    repeat dotdot_c (length bn - k) ++ skipn k tn.

  (* relpath t base, base absolute *)
  Definition relpath (t base : bytes) : bytes :=
    let t1 := normpath (realdirpath (abs_path cwd t)) in
    let b1 := normpath (realdirpath base) in
    join slash (relpath_comps (names_of t1) (names_of b1)).

  (* the Files.name key of File::from_name *)
  Definition db_key (base name : bytes) : bytes := relpath name base.
End RealDir.
