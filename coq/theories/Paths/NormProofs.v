From Redo Require Import Base.Bytes Base.BytesProofs Paths.Norm.

Lemma is_dotdot_eq c : is_dotdot c = true <-> c = [dot; dot].
Proof. apply bytes_eqb_eq. Qed.
Lemma is_dot_eq c : is_dot c = true <-> c = [dot].
Proof. apply bytes_eqb_eq. Qed.
Lemma is_empty_eq c : is_empty c = true <-> c = [].
Proof. destruct c; cbn; split; congruence. Qed.

(* ---- stack invariant ---- *)
Fixpoint stack_ok (r : bool) (st : list comp) : Prop :=
  match st with
  | [] => True
  | c :: st' =>
      (good_name c = true \/
       (is_dotdot c = true /\ r = false /\ forallb is_dotdot st' = true))
      /\ stack_ok r st'
  end.

Lemma good_not_special c : good_name c = true ->
  is_empty c = false /\ is_dot c = false /\ is_dotdot c = false /\ nosep slash c = true.
Proof.
  unfold good_name. intro H.
  repeat (apply andb_true_iff in H as [H ?]).
  repeat match goal with H : negb _ = true |- _ => apply negb_true_iff in H end.
  auto.
Qed.

Lemma step_push r st c : stack_ok r (c :: st) -> step r st c = c :: st.
Proof.
  cbn. intros [[Hg | (Hdd & Hr & Hall)] _]; unfold step.
  - apply good_not_special in Hg as (-> & -> & -> & _). reflexivity.
  - assert (c = [dot;dot]) by now apply is_dotdot_eq. subst c. cbn.
    subst r. destruct st as [|top rest]; [reflexivity|].
    cbn in Hall. apply andb_true_iff in Hall as [-> _]. reflexivity.
Qed.

Lemma stack_ok_all_dotdot st : forallb is_dotdot st = true -> stack_ok false st.
Proof.
  induction st as [|c st IH]; cbn; [trivial|]. intro H.
  apply andb_true_iff in H as [H1 H2]. split; [right; auto | auto].
Qed.

Lemma step_ok r st c : nosep slash c = true -> stack_ok r st -> stack_ok r (step r st c).
Proof.
  intros Hc Hst. unfold step.
  destruct (is_empty c) eqn:E1; [exact Hst|].
  destruct (is_dot c) eqn:E2; [exact Hst|]. cbn [orb].
  destruct (is_dotdot c) eqn:E3.
  - destruct st as [|top rest].
    + destruct r; cbn; auto.
    + destruct (is_dotdot top) eqn:E4.
      * destruct r; [exact Hst|].
        cbn. split; [|exact Hst]. right. repeat split; auto.
        cbn in Hst. destruct Hst as [[Hg|(_ & _ & Hall)] _].
        -- apply good_not_special in Hg as (_ & _ & Hg & _). congruence.
        -- cbn. now rewrite E4, Hall.
      * cbn in Hst. tauto.
  - cbn. split; [|exact Hst]. left. unfold good_name. now rewrite E1, E2, E3, Hc.
Qed.

Lemma fold_ok r cs st :
  forallb (nosep slash) cs = true -> stack_ok r st -> stack_ok r (fold_left (step r) cs st).
Proof.
  revert st; induction cs as [|c cs IH]; intros st H Hst; cbn; [exact Hst|].
  cbn in H. apply andb_true_iff in H as [H1 H2].
  apply IH; [assumption|]. now apply step_ok.
Qed.

(* re-running the machine over a valid stack rebuilds it *)
Lemma fold_rebuild r st cs :
  stack_ok r st -> fold_left (step r) (rev st ++ cs) [] = fold_left (step r) cs st.
Proof.
  revert cs; induction st as [|c st IH]; intros cs H; [reflexivity|].
  cbn [rev]. rewrite <- app_assoc. cbn [app].
  rewrite IH by (cbn in H; tauto). cbn [fold_left]. now rewrite step_push.
Qed.

Lemma stack_ok_nosep r st : stack_ok r st -> forallb (nosep slash) st = true.
Proof.
  induction st as [|c st IH]; cbn; [trivial|]. intros [[Hg|(Hdd & _)] Hst].
  - apply good_not_special in Hg as (_ & _ & _ & ->). cbn. auto.
  - apply is_dotdot_eq in Hdd. subst c. cbn. auto.
Qed.

Lemma clean_comps_stack r cs :
  forallb (nosep slash) cs = true -> stack_ok r (fold_left (step r) cs []).
Proof. intro H. apply fold_ok; cbn; auto. Qed.

Lemma forallb_rev {A} (f : A -> bool) l : forallb f (rev l) = forallb f l.
Proof.
  induction l as [|x l IH]; cbn; [reflexivity|].
  rewrite forallb_app, IH. cbn. rewrite andb_true_r. apply andb_comm.
Qed.

(* first byte of the rendering of a valid unrooted stack is not a slash *)
Lemma stack_ok_first_not_slash r st c cs' :
  stack_ok r st -> rev st = c :: cs' -> rooted (join slash (c :: cs')) = false.
Proof.
  intros H E.
  assert (Hc : In c st) by (apply in_rev; rewrite E; now left).
  assert (G : forall st, stack_ok r st -> In c st ->
              exists x xs, c = x :: xs /\ N.eqb x slash = false).
  { clear. induction st as [|d st IH]; cbn; [tauto|].
    intros [[Hg|(Hdd & _)] Hst] [->|Hin]; auto.
    - apply good_not_special in Hg as (He & _ & _ & Hns).
      destruct c as [|x xs]; [discriminate|]. exists x, xs. split; auto.
      cbn in Hns. apply andb_true_iff in Hns as [Hx _]. now apply negb_true_iff in Hx.
    - apply is_dotdot_eq in Hdd. subst c. exists dot, [dot]. auto. }
  destruct (G st H Hc) as (x & xs & -> & Hx).
  destruct cs'; cbn; exact Hx.
Qed.

Theorem normpath_idempotent s : normpath (normpath s) = normpath s.
Proof.
  unfold normpath. set (r := rooted s). set (st := fold_left (step r) (split slash s) []).
  assert (Hst : stack_ok r st) by (apply clean_comps_stack, split_nosep).
  unfold clean_comps. fold st.
  assert (Hns : forallb (nosep slash) (rev st) = true)
    by (rewrite forallb_rev; eapply stack_ok_nosep; eauto).
  destruct r eqn:Er.
  - (* rooted *)
    cbn [render rooted]. rewrite N.eqb_refl.
    unfold split. cbn [split_aux]. rewrite N.eqb_refl. cbn [rev fold_left].
    assert (E0 : step true [] [] = []) by reflexivity. rewrite E0.
    destruct (rev st) as [|c cs'] eqn:Erev.
    + cbn. reflexivity.
    + fold (split slash (join slash (c :: cs'))).
      rewrite split_join by (auto; discriminate).
      rewrite <- Erev. rewrite <- (app_nil_r (rev st)) at 1.
      rewrite fold_rebuild by assumption. cbn [fold_left]. reflexivity.
  - (* unrooted *)
    cbn [render].
    destruct (rev st) as [|c cs'] eqn:Erev.
    + cbn. reflexivity.
    + rewrite (stack_ok_first_not_slash false st c cs' Hst Erev).
      rewrite split_join by (auto; discriminate).
      rewrite <- Erev. rewrite <- (app_nil_r (rev st)) at 1.
      rewrite fold_rebuild by assumption. cbn [fold_left]. rewrite Erev. reflexivity.
Qed.

(* ---- the output is in normal form ---- *)
Lemma all_good_app a b : all_good (a ++ b) = all_good a && all_good b.
Proof. induction a as [|x a IH]; cbn; [reflexivity|]. now rewrite IH, andb_assoc. Qed.

Lemma stack_ok_rooted_good st : stack_ok true st -> all_good st = true.
Proof.
  induction st as [|c st IH]; cbn; [trivial|].
  intros [[Hg|(_ & Hr & _)] Hst]; [|discriminate]. now rewrite Hg, IH.
Qed.

Lemma nf_unrooted_app_dd a b :
  forallb is_dotdot a = true -> nf_unrooted (a ++ b) = nf_unrooted b.
Proof.
  induction a as [|x a IH]; cbn; [reflexivity|]. intro H.
  apply andb_true_iff in H as [-> H]. auto.
Qed.

Lemma stack_ok_nf r st : stack_ok r st -> nf r (rev st) = true.
Proof.
  destruct r; cbn [nf].
  - intro H. apply stack_ok_rooted_good in H.
    clear -H. induction st as [|c st IH]; cbn in *; [reflexivity|].
    apply andb_true_iff in H as [H1 H2]. rewrite all_good_app, IH by assumption. cbn. now rewrite H1.
  - induction st as [|c st IH]; cbn [stack_ok rev]; [reflexivity|].
    intros [[Hg|(Hdd & _ & Hall)] Hst].
    + specialize (IH Hst).
      (* rev st is nf; appending a good name keeps it nf *)
      clear Hst. revert IH. generalize (rev st) as l. induction l as [|d l IHl]; cbn.
      * pose proof (good_not_special _ Hg) as (_ & _ & -> & _). now rewrite Hg.
      * destruct (is_dotdot d); [exact IHl|].
        intro H. apply andb_true_iff in H as [H1 H2]. rewrite H1. cbn.
        rewrite all_good_app, H2. cbn. now rewrite Hg.
    + rewrite nf_unrooted_app_dd by now rewrite forallb_rev. cbn. now rewrite Hdd.
Qed.

Theorem clean_comps_nf s :
  nf (rooted s) (clean_comps (rooted s) (split slash s)) = true.
Proof. unfold clean_comps. apply stack_ok_nf, clean_comps_stack, split_nosep. Qed.
