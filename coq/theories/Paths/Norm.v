(* Model of redo::helpers::normpath (src/helpers.rs) -- Go's filepath.Clean
   on Unix -- as a component machine.  MODEL FILE: definitions only. *)
From Redo Require Export Base.Bytes.

Definition comp := bytes.

Definition is_dot (c : comp) : bool := bytes_eqb c [dot].
Definition is_dotdot (c : comp) : bool := bytes_eqb c [dot; dot].
Definition is_empty (c : comp) : bool := match c with [] => true | _ => false end.

Definition rooted (s : bytes) : bool :=
  match s with c :: _ => N.eqb c slash | [] => false end.

(* The output buffer as a stack of components, LAST component first.
   [r] says whether the path is rooted. *)
Definition step (r : bool) (st : list comp) (c : comp) : list comp :=
  if is_empty c || is_dot c then st
  else if is_dotdot c then
    match st with
    | top :: rest => if is_dotdot top then (if r then st else c :: st) else rest
    | [] => if r then [] else [c]
    end
  else c :: st.

Definition clean_comps (r : bool) (cs : list comp) : list comp :=
  rev (fold_left (step r) cs []).

Definition render (r : bool) (cs : list comp) : bytes :=
  if r then slash :: join slash cs
  else match cs with [] => [dot] | _ => join slash cs end.

Definition normpath (s : bytes) : bytes :=
  render (rooted s) (clean_comps (rooted s) (split slash s)).

(* abs_path cwd p (src/helpers.rs): Path::push semantics. *)
Definition ends_with_slash (s : bytes) : bool :=
  match rev s with c :: _ => N.eqb c slash | [] => false end.

Definition path_push (a p : bytes) : bytes :=
  if rooted p then p
  else match a with
       | [] => p
       | _ => if ends_with_slash a then a ++ p else a ++ slash :: p
       end.

Definition abs_path (cwd p : bytes) : bytes :=
  if rooted p then p else path_push cwd p.

(* A "good" name: a real path element. *)
Definition good_name (c : comp) : bool :=
  negb (is_empty c) && negb (is_dot c) && negb (is_dotdot c) && nosep slash c.

(* Normal form of a component list (as produced by clean_comps):
   rooted: only good names; unrooted: some ".." then only good names. *)
Fixpoint all_good (cs : list comp) : bool :=
  match cs with [] => true | c :: cs' => good_name c && all_good cs' end.

Fixpoint nf_unrooted (cs : list comp) : bool :=
  match cs with
  | [] => true
  | c :: cs' => if is_dotdot c then nf_unrooted cs' else all_good cs
  end.

Definition nf (r : bool) (cs : list comp) : bool :=
  if r then all_good cs else nf_unrooted cs.
