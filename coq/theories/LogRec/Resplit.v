(* What the viewer's re-splitting of a physical line (fix F64) does: a line is
   left alone, or cut in two so that nothing is lost: the text before the first
   record prefix becomes a plain line of its own, the rest is a record. *)
From Coq Require Import List NArith ZArith Bool Lia.
Import ListNotations.
From Redo Require Import Base.Bytes LogRec.Meta LogRec.MetaProofs LogRec.Catlog LogRec.CatlogProofs.

Lemma find_sub_spec p : forall s k, find_sub p s = Some k ->
  (k <= length s)%nat /\ exists r, strip_prefix p (skipn k s) = Some r.
Proof.
  induction s as [|c s IH]; intros k H; cbn [find_sub] in H.
  - destruct (strip_prefix p []) as [r0|] eqn:E; [|discriminate]. injection H as <-. split; [cbn; lia|]. exists r0. exact E.
  - destruct (strip_prefix p (c :: s)) as [r0|] eqn:E.
    + injection H as <-. split; [cbn; lia|]. exists r0. exact E.
    + destruct (find_sub p s) as [k'|] eqn:E'; [|discriminate]. injection H as <-.
      destruct (IH k' eq_refl) as (Hl & r & Hr). split; [cbn; lia|]. exists r. exact Hr.
Qed.

(* before the first occurrence the pattern does not occur at the start *)
Lemma find_sub_pos_head p s k : find_sub p s = Some (S k) -> strip_prefix p s = None.
Proof.
  destruct s as [|c s]; cbn [find_sub].
  - destruct (strip_prefix p []); [discriminate|reflexivity].
  - destruct (strip_prefix p (c :: s)); [discriminate|reflexivity].
Qed.

Lemma strip_prefix_complete p : forall s r, s = p ++ r -> strip_prefix p s = Some r.
Proof. intros s r ->. apply strip_prefix_app. Qed.

(* strip_nl returns a prefix of its argument *)
Lemma drop_while_rev_suffix q : forall r, exists a, r = a ++ drop_while_rev q r.
Proof.
  induction r as [|c r IH]; cbn [drop_while_rev]; [exists []; reflexivity|].
  destruct (q c); [|exists []; reflexivity].
  destruct IH as [a Ha]. exists (c :: a). cbn. now rewrite <- Ha.
Qed.
Lemma strip_nl_prefix s : exists b, s = strip_nl s ++ b.
Proof.
  unfold strip_nl. destruct (drop_while_rev_suffix (N.eqb newline) (rev s)) as [a Ha].
  exists (rev a). rewrite <- rev_app_distr, <- Ha. now rewrite rev_involutive.
Qed.

(* a line whose beginning, up to a point where the prefix has not occurred at
   the start, is cut off and closed with a newline is a plain line *)
Lemma text_part_plain l k :
  strip_prefix b_prefix l = None -> is_plain (firstn k l ++ [newline]) = true.
Proof.
  intro H. unfold is_plain, parse.
  destruct (strip_prefix b_prefix (strip_nl (firstn k l ++ [newline]))) as [r|] eqn:E; [|reflexivity].
  exfalso. apply strip_prefix_sound in E.
  (* then b_prefix would be a prefix of l, or of what was cut plus the newline *)
  destruct (strip_nl_prefix (firstn k l ++ [newline])) as [b Hb]. rewrite E in Hb.
  (* firstn k l ++ [nl] = b_prefix ++ r ++ b: b_prefix has no newline, so it lies within firstn k l *)
  destruct (Nat.le_gt_cases (length b_prefix) (length (firstn k l))) as [Hlen|Hlen].
  - assert (Hp : firstn (length b_prefix) (firstn k l ++ [newline]) = b_prefix).
    { rewrite Hb, <- app_assoc, firstn_app, firstn_all, Nat.sub_diag. cbn [firstn]. now rewrite app_nil_r. }
    rewrite firstn_app in Hp. replace (length b_prefix - length (firstn k l))%nat with O in Hp by lia.
    cbn [firstn] in Hp. rewrite app_nil_r in Hp.
    rewrite firstn_firstn in Hp. rewrite firstn_length in Hlen.
    replace (Nat.min (length b_prefix) k) with (length b_prefix) in Hp by lia.
    assert (Hl : l = b_prefix ++ skipn (length b_prefix) l).
    { rewrite <- Hp at 1. now rewrite firstn_skipn. }
    rewrite (strip_prefix_complete _ _ _ Hl) in H. discriminate.
  - (* the newline would be one of the bytes of b_prefix *)
    assert (Hn : nth (length (firstn k l)) (firstn k l ++ [newline]) 0%N = newline).
    { rewrite app_nth2 by lia. now rewrite Nat.sub_diag. }
    rewrite Hb, <- app_assoc, app_nth1 in Hn by exact Hlen.
    remember (length (firstn k l)) as n. clear -Hn Hlen.
    cbn [b_prefix length] in Hlen.
    do 7 (destruct n as [|n]; [cbv in Hn; discriminate|]). lia.
Qed.

Theorem resplit1_cases l :
  resplit1 l = [l] \/
  exists a b, resplit1 l = [a ++ [newline]; b] /\ l = a ++ b /\ a <> [] /\
              is_plain (a ++ [newline]) = true /\ is_plain b = false.
Proof.
  unfold resplit1. destruct (find_sub b_prefix l) as [[|k]|] eqn:E; auto.
  destruct (parse (strip_nl (skipn (S k) l))) eqn:Ep; auto.
  right. exists (firstn (S k) l), (skipn (S k) l).
  destruct (find_sub_spec _ _ _ E) as (Hlen & _).
  split; [reflexivity|]. split; [now rewrite firstn_skipn|]. split.
  - intro H0. apply (f_equal (@length _)) in H0. rewrite firstn_length in H0. cbn [length] in H0. lia.
  - split; [apply text_part_plain; eapply find_sub_pos_head; eauto|].
    unfold is_plain. now rewrite Ep.
Qed.

(* nothing is lost or invented: without the inserted line ends the lines are the old ones *)
Theorem resplit_keeps_bytes ls :
  concat (map (filter (fun c => negb (N.eqb c newline))) (resplit ls))
  = concat (map (filter (fun c => negb (N.eqb c newline))) ls).
Proof.
  unfold resplit. set (f := filter (fun c => negb (N.eqb c newline))).
  unfold bytes in *. induction ls as [|l ls IH]; [reflexivity|].
  change (flat_map resplit1 (l :: ls)) with (resplit1 l ++ flat_map resplit1 ls).
  rewrite map_app, concat_app. unfold bytes in *. rewrite IH. change (map f (l :: ls)) with (f l :: map f ls).
  change (concat (f l :: map f ls)) with (f l ++ concat (map f ls)). f_equal.
  destruct (resplit1_cases l) as [H|(a & b & H & Hl & _)]; rewrite H.
  - cbn [map concat]. now rewrite app_nil_r.
  - cbn [map concat]. rewrite app_nil_r, Hl. unfold f. rewrite !filter_app. cbn [filter].
    rewrite N.eqb_refl. cbn [negb]. now rewrite app_nil_r.
Qed.
