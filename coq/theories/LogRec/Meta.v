(* Model of redo::logs::Meta (src/logs.rs): Display and parse of structured
   log records  "@@REDO:<kind>:<pid>:<secs>.<4 digits>@@ <text>".
   Timestamps are modelled in units of 1e-4 s (what "{:.4}" writes).
   MODEL FILE: definitions only. *)
From Coq Require Import ZArith.
From Redo Require Export Base.Bytes.

Definition at_sign : N := 64.
Definition colon : N := 58.
Definition newline : N := 10.
Definition space : N := 32.
Definition minus : N := 45.
Definition plus : N := 43.
Definition b_prefix : bytes := [64;64;82;69;68;79;58].   (* "@@REDO:" *)
Definition b_sep : bytes := [64;64;32].                   (* "@@ " *)

Record meta := { kind : bytes; pid : Z; ts : N; text : bytes }.

(* ---- decimal numbers ---- *)
Fixpoint to_digits (fuel : nat) (n : N) : bytes :=
  match fuel with
  | O => [48 + n mod 10]
  | S f => if n <? 10 then [48 + n] else to_digits f (n / 10) ++ [48 + n mod 10]
  end.
Definition dec (n : N) : bytes := to_digits (N.size_nat n) n.

Definition is_digit (c : N) : bool := (48 <=? c) && (c <=? 57).

Definition parse_digits (s : bytes) : option N :=
  match s with
  | [] => None
  | _ => if forallb is_digit s
         then Some (fold_left (fun acc c => 10 * acc + (c - 48)) s 0)
         else None
  end.

Definition dec_z (z : Z) : bytes :=
  match z with
  | Z0 => dec 0
  | Zpos p => dec (Npos p)
  | Zneg p => minus :: dec (Npos p)
  end.

Definition i32_min : Z := (-2147483648)%Z.
Definition i32_max : Z := 2147483647%Z.

(* str::parse::<i32>: optional sign, at least one digit, in range *)
Definition parse_i32 (s : bytes) : option Z :=
  let '(neg, ds) :=
    match s with
    | c :: s' => if N.eqb c minus then (true, s') else if N.eqb c plus then (false, s') else (false, s)
    | [] => (false, [])
    end in
  match parse_digits ds with
  | None => None
  | Some n =>
      let z := if neg then Z.opp (Z.of_N n) else Z.of_N n in
      if (i32_min <=? z)%Z && (z <=? i32_max)%Z then Some z else None
  end.

(* "{:.4}" of a timestamp given in 1e-4 s units *)
Definition pad4 (n : N) : bytes :=
  [48 + (n / 1000) mod 10; 48 + (n / 100) mod 10; 48 + (n / 10) mod 10; 48 + n mod 10].
Definition format_ts (t : N) : bytes := dec (t / 10000) ++ dot :: pad4 (t mod 10000).

(* str::parse::<f64> restricted to plain decimals: digits, optionally a '.'
   and more digits, at least one digit in all (no exponent / inf / nan: those
   are outside the model).  The value is kept to 4 decimals (truncated). *)
Definition digits_opt (s : bytes) : option N :=
  match s with [] => Some 0 | _ => parse_digits s end.
Definition frac4 (fp : bytes) : option N :=
  if forallb is_digit fp
  then Some (fold_left (fun acc c => 10 * acc + (c - 48)) (firstn 4 (fp ++ [48;48;48;48])) 0)
  else None.
Definition parse_ts (s : bytes) : option N :=
  match split dot s with
  | [ip] => match parse_digits ip with Some i => Some (i * 10000) | None => None end
  | [ip; fp] =>
      match ip, fp with
      | [], [] => None
      | _, _ =>
        match digits_opt ip, frac4 fp with
        | Some i, Some f => Some (i * 10000 + f)
        | _, _ => None
        end
      end
  | _ => None
  end.

(* ---- Display ---- *)
Definition format (m : meta) : bytes :=
  b_prefix ++ kind m ++ colon :: dec_z (pid m) ++ colon :: format_ts (ts m) ++ b_sep ++ text m.

(* ---- parse ---- *)
Fixpoint strip_prefix (p s : bytes) : option bytes :=
  match p, s with
  | [], _ => Some s
  | x :: p', y :: s' => if N.eqb x y then strip_prefix p' s' else None
  | _ :: _, [] => None
  end.

(* first occurrence of "@@ ": (before, after) *)
Fixpoint find_sep (acc_rev s : bytes) : option (bytes * bytes) :=
  match s with
  | [] => None
  | c :: s' =>
      match strip_prefix b_sep s with
      | Some rest => Some (rev acc_rev, rest)
      | None => find_sep (c :: acc_rev) s'
      end
  end.

Definition contains (c : N) (s : bytes) : bool := existsb (N.eqb c) s.

Definition parse (s : bytes) : option meta :=
  match strip_prefix b_prefix s with
  | None => None
  | Some rest =>
      if contains newline s then None else
      match find_sep [] rest with
      | None => None
      | Some (m, txt) =>
          if contains at_sign m then None else
          match split colon m with
          | k :: p :: t :: _ =>
              match parse_i32 p, parse_ts t with
              | Some p', Some t' => Some {| kind := k; pid := p'; ts := t'; text := txt |}
              | _, _ => None
              end
          | _ => None
          end
      end
  end.

(* what a record writer must respect *)
Definition wf_meta (m : meta) : bool :=
  negb (contains colon (kind m)) && negb (contains at_sign (kind m)) && negb (contains newline (kind m))
  && negb (contains newline (text m))
  && (i32_min <=? pid m)%Z && (pid m <=? i32_max)%Z.

(* done-record text: "<rv> <name>" *)
Definition done_text (rv : Z) (name : bytes) : bytes := dec_z rv ++ space :: name.
Fixpoint split_first_space (acc_rev s : bytes) : option (bytes * bytes) :=
  match s with
  | [] => None
  | c :: s' => if N.eqb c space then Some (rev acc_rev, s') else split_first_space (c :: acc_rev) s'
  end.
Definition parse_done_text (t : bytes) : option (Z * bytes) :=
  match split_first_space [] t with
  | None => None
  | Some (rv, name) => match parse_i32 rv with Some z => Some (z, name) | None => None end
  end.
