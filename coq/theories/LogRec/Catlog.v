(* Model of the static log replay `redo-log -r [-u] targets...` (LogState::catlog
   and run() in src/bin/redo/log.rs): details on, no --debug-locks, not
   following, every log complete.  A log is followed line by line; a record that
   names a nested target (do / waiting / locked / unlocked, and unchanged under
   -u) is expanded in place, once per name; plain lines are printed after a
   "resumed" header when something was printed in between.

   Parameters of the model (Section variables): [lookup] -- what redo knows
   about a name (unknown / no log file / the bytes of .redo/log.<id>) and [rel]
   -- the name of a nested target seen from the top directory, given the
   directory of the log's owner and the text of the record.
   Not modelled: lossy UTF-8 decoding (A-UTF8: complete lines are valid UTF-8),
   Unicode white space in clean_line (ASCII only), the "-" (stdin) pseudo
   target, the depth/indentation state, the status line.
   MODEL FILE: definitions only. *)
From Coq Require Import List NArith ZArith Bool.
Import ListNotations.
From Redo Require Import Base.Bytes LogRec.Meta.

Inductive known := KUnknown | KNoLog | KLog (content : bytes).

(* what the viewer writes; [owner] is a ghost tag (the target whose log the line
   was read from), not part of the output *)
Inductive lev :=
| EvMeta (kind text : bytes)          (* a record written by the viewer itself *)
| EvText (owner line : bytes)         (* a plain line of a log, through clean_line *)
| EvRaw (owner line : bytes)          (* a record line of another kind, copied through clean_line *)
| EvTail (owner line : bytes).        (* an unterminated last line, through clean_line *)

Inductive status := SOk | SExit24 | SPanic | SFuel.
Record ret := { r_status : status; r_written : nat; r_evs : list lev; r_already : list bytes }.

Definition mem (x : bytes) (l : list bytes) : bool := existsb (bytes_eqb x) l.

(* the log file as read_until delivers it when nothing is appended meanwhile:
   complete lines (newline included) and an unterminated rest *)
Fixpoint split_lines_aux (cur_rev : bytes) (s : bytes) : list bytes * bytes :=
  match s with
  | [] => ([], rev cur_rev)
  | c :: s' =>
      if N.eqb c newline
      then let '(ls, rest) := split_lines_aux [] s' in (rev (c :: cur_rev) :: ls, rest)
      else split_lines_aux (c :: cur_rev) s'
  end.
Definition split_lines (s : bytes) : list bytes * bytes := split_lines_aux [] s.

(* first occurrence of [p] in [s] *)
Fixpoint find_sub (p s : bytes) : option nat :=
  match strip_prefix p s with
  | Some _ => Some O
  | None => match s with
            | [] => None
            | _ :: s' => match find_sub p s' with Some k => Some (S k) | None => None end
            end
  end.

(* str::trim_end for ASCII white space, trim_end_matches('\n') *)
Definition is_ws (c : N) : bool :=
  N.eqb c 32 || N.eqb c 9 || N.eqb c 10 || N.eqb c 11 || N.eqb c 12 || N.eqb c 13.
Fixpoint drop_while_rev (p : N -> bool) (r : bytes) : bytes :=
  match r with
  | c :: r' => if p c then drop_while_rev p r' else r
  | [] => []
  end.
Definition trim_end (s : bytes) : bytes := rev (drop_while_rev is_ws (rev s)).
Definition strip_nl (s : bytes) : bytes := rev (drop_while_rev (N.eqb newline) (rev s)).
Definition clean_line (s : bytes) : bytes := trim_end s ++ [newline].

(* A record written while the script's own output stood in mid-line (printf
   'checking y... '; redo-ifchange y) comes after that text on the same physical
   line.  The text is shown as a line of its own and the record is taken for
   what it is (fix F64; before, the record was not seen and the nested target's
   log was never shown).  Like the pretty printer, only the first "@@REDO:" of
   a line is looked at. *)
Definition resplit1 (l : bytes) : list bytes :=
  match find_sub b_prefix l with
  | Some (S k) =>
      match parse (strip_nl (skipn (S k) l)) with
      | Some _ => [firstn (S k) l ++ [newline]; skipn (S k) l]
      | None => [l]
      end
  | _ => [l]
  end.
Definition resplit (ls : list bytes) : list bytes := flat_map resplit1 ls.
(* the lines of a complete log as the viewer handles them, and its unterminated end *)
Definition log_lines (content : bytes) : list bytes * bytes :=
  let '(ls, rest) := split_lines content in (resplit ls, rest).

Definition k_do : bytes := [100; 111].
Definition k_done : bytes := [100; 111; 110; 101].
Definition k_unchanged : bytes := [117; 110; 99; 104; 97; 110; 103; 101; 100].
Definition k_waiting : bytes := [119; 97; 105; 116; 105; 110; 103].
Definition k_locked : bytes := [108; 111; 99; 107; 101; 100].
Definition k_unlocked : bytes := [117; 110; 108; 111; 99; 107; 101; 100].
Definition k_resumed : bytes := [114; 101; 115; 117; 109; 101; 100].
Definition is_start_kind (k : bytes) : bool :=
  bytes_eqb k k_do || bytes_eqb k k_waiting || bytes_eqb k k_locked || bytes_eqb k k_unlocked.

(* Path::parent of a relative name *)
Fixpoint parent_aux (acc_rev : bytes) (best : bytes) (s : bytes) : bytes :=
  match s with
  | [] => best
  | c :: s' => if N.eqb c slash then parent_aux (c :: acc_rev) (rev acc_rev) s'
               else parent_aux (c :: acc_rev) best s'
  end.
Definition parent_dir (t : bytes) : bytes := parent_aux [] [] t.

Definition prepend (es : list lev) (r : ret) : ret :=
  {| r_status := r_status r; r_written := r_written r; r_evs := es ++ r_evs r; r_already := r_already r |}.

Section Catlog.
  Variable lookup : bytes -> known.
  Variable rel : bytes -> bytes -> bytes.      (* directory of the owner, text of the record *)
  Variable flag_u : bool.                       (* --unchanged *)

  Section Loop.
    Variable rec : bytes -> list bytes -> ret.  (* catlog of a nested name (less fuel) *)
    Variable t mydir : bytes.
    Variable rest : bytes.                       (* the unterminated end of the log *)

    (* expansion of a nested name: header unless already shown, then its log *)
    Definition nested (name : bytes) (already : list bytes)
               (k : list bytes -> nat -> ret) : ret :=
      let fresh := negb (mem name already) in
      let hdr := if fresh then [EvMeta k_do name] else [] in
      let r := rec name already in
      match r_status r with
      | SOk => prepend (hdr ++ r_evs r)
                       (k (name :: r_already r) ((if fresh then 1 else 0) + r_written r)%nat)
      | _ => {| r_status := r_status r; r_written := 0; r_evs := hdr ++ r_evs r; r_already := r_already r |}
      end.

    Fixpoint loop (ls : list bytes) (already : list bytes) (interrupted written : nat) : ret :=
      match ls with
      | [] => {| r_status := SOk; r_written := written; r_already := already;
                 r_evs := match rest with
                          | [] => []
                          | _ => (match interrupted with O => [] | S _ => [EvMeta k_resumed t] end)
                                 ++ [EvTail t (clean_line rest)]
                          end |}
      | l :: ls' =>
          match parse (strip_nl l) with
          | Some g =>
              if bytes_eqb (kind g) k_unchanged then
                if flag_u
                then nested (rel mydir (text g)) already
                            (fun al got => loop ls' al (interrupted + got)%nat (written + got)%nat)
                else loop ls' already interrupted written
              else if is_start_kind (kind g) then
                match text g with
                | [] => {| r_status := SPanic; r_written := written; r_evs := []; r_already := already |}
                | _ => nested (rel mydir (text g)) already
                              (fun al got => loop ls' al (interrupted + got)%nat (written + got)%nat)
                end
              else if bytes_eqb (kind g) k_done then
                match parse_done_text (text g) with
                | None => {| r_status := SPanic; r_written := written; r_evs := []; r_already := already |}
                | Some (rv, name) =>
                    prepend [EvMeta k_done (done_text rv (rel mydir name))]
                            (loop ls' already interrupted (S written))
                end
              else prepend [EvRaw t (clean_line l)] (loop ls' already interrupted (S written))
          | None =>
              prepend ((match interrupted with O => [] | S _ => [EvMeta k_resumed t] end)
                       ++ [EvText t (clean_line l)])
                      (loop ls' already 0 (S written))
          end
      end.
  End Loop.

  Fixpoint catlog (fuel : nat) (t : bytes) (already : list bytes) : ret :=
    match fuel with
    | O => {| r_status := SFuel; r_written := 0; r_evs := []; r_already := already |}
    | S f =>
        if mem t already then {| r_status := SOk; r_written := 0; r_evs := []; r_already := already |}
        else
          let al := t :: already in
          match lookup (rel [] t) with      (* File::from_name resolves the spelling *)
          | KUnknown => {| r_status := SExit24; r_written := 0; r_evs := []; r_already := al |}
          | KNoLog => {| r_status := SOk; r_written := 0; r_evs := []; r_already := al |}
          | KLog content =>
              let '(ls, rest) := log_lines content in
              loop (catlog f) t (parent_dir t) rest ls al 0 0
          end
    end.

  (* run(): the targets of the command line, one after the other *)
  Fixpoint run_log (fuel : nat) (ts : list bytes) (already : list bytes) : status * list lev :=
    match ts with
    | [] => (SOk, [])
    | t :: ts' =>
        let n := rel [] t in                     (* the name redo prints for this spelling *)
        let hdr := EvMeta k_do n in
        let r := catlog fuel n already in
        match r_status r with
        | SOk => let '(s, es) := run_log fuel ts' (r_already r) in (s, hdr :: r_evs r ++ es)
        | s => (s, hdr :: r_evs r)
        end
    end.
End Catlog.

(* the bytes written for an event, the pid and time stamp of a viewer record
   normalised to 0 (they are not a function of the logs) *)
Definition render_ev (e : lev) : bytes :=
  match e with
  | EvMeta k x => format {| kind := k; pid := 0%Z; ts := 0%N; text := x |} ++ [newline]
  | EvText _ l => l
  | EvRaw _ l => l
  | EvTail _ b => b
  end.
