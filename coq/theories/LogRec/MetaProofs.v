From Coq Require Import ZArith Lia ZifyBool ZifyN.
From Redo Require Import Base.Bytes Base.BytesProofs LogRec.Meta.
Ltac Zify.zify_post_hook ::= Z.div_mod_to_equations.
Arguments N.add : simpl never.
Arguments N.mul : simpl never.
Arguments N.div : simpl never.
Arguments N.modulo : simpl never.
Arguments N.sub : simpl never.
Arguments N.ltb : simpl never.
Arguments N.leb : simpl never.
Arguments N.pow : simpl never.

Definition digits_val (s : bytes) : N := fold_left (fun acc c => 10 * acc + (c - 48)) s 0.

Lemma digits_val_app l d : digits_val (l ++ [d]) = 10 * digits_val l + (d - 48).
Proof. unfold digits_val. now rewrite fold_left_app. Qed.

Lemma is_digit_spec c : is_digit c = true <-> 48 <= c <= 57.
Proof. unfold is_digit. lia. Qed.

Lemma to_digits_digits f n : forallb is_digit (to_digits f n) = true.
Proof.
  revert n; induction f as [|f IH]; intro n; cbn [to_digits].
  - cbn. rewrite andb_true_r. apply is_digit_spec. lia.
  - destruct (n <? 10) eqn:E.
    + cbn. rewrite andb_true_r. apply is_digit_spec. lia.
    + rewrite forallb_app, IH. cbn. rewrite andb_true_r. apply is_digit_spec. lia.
Qed.

Lemma to_digits_nonempty f n : to_digits f n <> [].
Proof.
  destruct f; cbn [to_digits]; [discriminate|].
  destruct (n <? 10); [discriminate|]. intro H. apply app_eq_nil in H as [_ H]. discriminate.
Qed.

Lemma to_digits_val f : forall n, n < 2 ^ N.of_nat f -> digits_val (to_digits f n) = n.
Proof.
  induction f as [|f IH]; intros n Hn.
  - change (2 ^ N.of_nat 0) with 1 in Hn. assert (n = 0) by lia. subst. reflexivity.
  - cbn [to_digits]. destruct (n <? 10) eqn:E.
    + unfold digits_val. cbn. lia.
    + rewrite digits_val_app, IH.
      * lia.
      * rewrite Nat2N.inj_succ, N.pow_succ_r' in Hn. lia.
Qed.

Lemma dec_digits n : forallb is_digit (dec n) = true.
Proof. apply to_digits_digits. Qed.
Lemma dec_nonempty n : dec n <> [].
Proof. apply to_digits_nonempty. Qed.

Lemma size_nat_bound n : n < 2 ^ N.of_nat (N.size_nat n).
Proof.
  destruct n as [|p]; [reflexivity|]. cbn [N.size_nat].
  induction p as [p IH|p IH|]; cbn [Pos.size_nat]; rewrite ?Nat2N.inj_succ, ?N.pow_succ_r'; try lia.
Qed.

Lemma parse_digits_dec n : parse_digits (dec n) = Some n.
Proof.
  unfold parse_digits. pose proof (dec_nonempty n) as Hne.
  destruct (dec n) as [|c l] eqn:E; [congruence|]. rewrite <- E.
  rewrite dec_digits. f_equal. apply to_digits_val, size_nat_bound.
Qed.

Lemma digits_no c s : forallb is_digit s = true -> is_digit c = false -> contains c s = false.
Proof.
  intros Hs Hc. unfold contains. induction s as [|x s IH]; [reflexivity|].
  cbn in *. apply andb_true_iff in Hs as [Hx Hs]. rewrite IH by assumption.
  destruct (N.eqb c x) eqn:E; [|reflexivity]. apply N.eqb_eq in E. subst. congruence.
Qed.

Lemma contains_nosep c s : contains c s = false -> nosep c s = true.
Proof.
  unfold contains, nosep. induction s as [|x s IH]; [reflexivity|]. cbn.
  intro H. apply orb_false_iff in H as [H1 H2]. rewrite IH by assumption.
  rewrite N.eqb_sym, H1. reflexivity.
Qed.

Lemma contains_app c a b : contains c (a ++ b) = contains c a || contains c b.
Proof. unfold contains. apply existsb_app. Qed.
Lemma contains_cons c x a : contains c (x :: a) = N.eqb c x || contains c a.
Proof. reflexivity. Qed.

(* ---- pid ---- *)
Lemma hd_digit s c l : forallb is_digit s = true -> s = c :: l -> N.eqb c minus = false /\ N.eqb c plus = false.
Proof.
  intros H ->. cbn in H. apply andb_true_iff in H as [H _]. apply is_digit_spec in H.
  unfold minus, plus. split; apply N.eqb_neq; lia.
Qed.

Lemma parse_i32_dec_z z : (i32_min <= z <= i32_max)%Z -> parse_i32 (dec_z z) = Some z.
Proof.
  intros Hz. unfold parse_i32, dec_z. destruct z as [|p|p].
  - reflexivity.
  - pose proof (dec_nonempty (Npos p)) as Hne. destruct (dec (Npos p)) as [|c l] eqn:E; [congruence|].
    destruct (hd_digit _ c l (dec_digits (Npos p)) E) as [-> ->]. rewrite <- E, parse_digits_dec.
    replace ((i32_min <=? Z.of_N (N.pos p))%Z && (Z.of_N (N.pos p) <=? i32_max)%Z) with true by (cbn [Z.of_N]; lia).
    reflexivity.
  - rewrite N.eqb_refl, parse_digits_dec.
    replace ((i32_min <=? - Z.of_N (N.pos p))%Z && (- Z.of_N (N.pos p) <=? i32_max)%Z) with true by (cbn [Z.of_N]; lia).
    reflexivity.
Qed.

Lemma dec_z_no c z : is_digit c = false -> N.eqb c minus = false -> contains c (dec_z z) = false.
Proof.
  intros Hc Hm. destruct z; cbn [dec_z]; try (apply digits_no; [apply dec_digits|assumption]).
  rewrite contains_cons, Hm. apply digits_no; [apply dec_digits|assumption].
Qed.

(* ---- timestamp ---- *)
Lemma pad4_digits n : forallb is_digit (pad4 n) = true.
Proof. cbn. rewrite !andb_true_iff. repeat split; apply is_digit_spec; lia. Qed.

(* finite domain: checked for all 10000 values by computation, then lifted *)
Lemma pad4_val_sweep :
  forallb (fun k => N.eqb (digits_val (pad4 (N.of_nat k))) (N.of_nat k)) (seq 0 (N.to_nat 10000)) = true.
Proof. vm_compute. reflexivity. Qed.

Lemma pad4_val n : n < 10000 -> digits_val (pad4 n) = n.
Proof.
  intro H. pose proof pad4_val_sweep as S. rewrite forallb_forall in S.
  specialize (S (N.to_nat n)). rewrite N2Nat.id in S. apply N.eqb_eq, S.
  apply in_seq. lia.
Qed.

Lemma format_ts_no c t : is_digit c = false -> N.eqb c dot = false -> contains c (format_ts t) = false.
Proof.
  intros Hc Hd. unfold format_ts. rewrite contains_app, contains_cons, Hd.
  rewrite (digits_no c _ (dec_digits _) Hc), (digits_no c _ (pad4_digits _) Hc). reflexivity.
Qed.

Lemma digits_opt_dec n : digits_opt (dec n) = Some n.
Proof.
  unfold digits_opt. pose proof (dec_nonempty n) as Hne.
  destruct (dec n) as [|c l] eqn:E; [congruence|]. rewrite <- E. apply parse_digits_dec.
Qed.

Lemma frac4_pad4 r : r < 10000 -> frac4 (pad4 r) = Some r.
Proof.
  intro H. unfold frac4. rewrite pad4_digits.
  change (firstn 4 (pad4 r ++ [48; 48; 48; 48])) with (pad4 r).
  fold (digits_val (pad4 r)). now rewrite pad4_val.
Qed.

Lemma parse_ts_format t : parse_ts (format_ts t) = Some t.
Proof.
  unfold parse_ts, format_ts.
  change (dec (t / 10000) ++ dot :: pad4 (t mod 10000)) with (join dot [dec (t / 10000); pad4 (t mod 10000)]).
  rewrite split_join.
  2: discriminate.
  2:{ cbn [forallb]. rewrite !contains_nosep; [reflexivity| |]; apply digits_no; auto using pad4_digits, dec_digits. }
  pose proof (digits_opt_dec (t / 10000)) as HD. pose proof (dec_nonempty (t / 10000)) as Hne.
  set (D := dec (t / 10000)) in *. destruct D as [|c l]; [congruence|].
  rewrite HD, frac4_pad4 by lia. f_equal. lia.
Qed.

(* ---- separator search ---- *)
Lemma strip_prefix_app p s : strip_prefix p (p ++ s) = Some s.
Proof. induction p as [|x p IH]; cbn; [reflexivity|]. now rewrite N.eqb_refl. Qed.

Lemma find_sep_spec m txt : forall acc,
  contains at_sign m = false ->
  find_sep acc (m ++ b_sep ++ txt) = Some (rev acc ++ m, txt).
Proof.
  induction m as [|c m IH]; intros acc H.
  - cbn [app]. change (b_sep ++ txt) with (64 :: 64 :: 32 :: txt). cbn [find_sep].
    change (64 :: 64 :: 32 :: txt) with (b_sep ++ txt). rewrite strip_prefix_app. now rewrite app_nil_r.
  - rewrite contains_cons in H. apply orb_false_iff in H as [Hc Hm].
    cbn [app find_sep]. cbn [strip_prefix b_sep]. fold at_sign.
    rewrite Hc. rewrite IH by assumption. cbn [rev]. now rewrite <- app_assoc.
Qed.

(* ---- the round trip ---- *)
Lemma wf_meta_spec m : wf_meta m = true ->
  contains colon (kind m) = false /\ contains at_sign (kind m) = false /\
  contains newline (kind m) = false /\ contains newline (text m) = false /\
  (i32_min <= pid m <= i32_max)%Z.
Proof.
  unfold wf_meta. rewrite !andb_true_iff, !negb_true_iff. intros [[[[[? ?] ?] ?] ?] ?]. repeat split; auto; lia.
Qed.

Theorem parse_format m : wf_meta m = true -> parse (format m) = Some m.
Proof.
  intro W. apply wf_meta_spec in W as (Hkc & Hka & Hkn & Htn & Hp).
  unfold parse, format. rewrite strip_prefix_app.
  set (M := kind m ++ colon :: dec_z (pid m) ++ colon :: format_ts (ts m)).
  replace (b_prefix ++ kind m ++ colon :: dec_z (pid m) ++ colon :: format_ts (ts m) ++ b_sep ++ text m)
    with (b_prefix ++ M ++ b_sep ++ text m).
  2:{ unfold M. rewrite <- !app_assoc. cbn [app]. rewrite <- !app_assoc. reflexivity. }
  assert (HMn : contains newline M = false).
  { unfold M. rewrite contains_app, contains_cons, contains_app, contains_cons, Hkn.
    rewrite dec_z_no, format_ts_no by reflexivity. reflexivity. }
  assert (HMa : contains at_sign M = false).
  { unfold M. rewrite contains_app, contains_cons, contains_app, contains_cons, Hka.
    rewrite dec_z_no, format_ts_no by reflexivity. reflexivity. }
  replace (contains newline (b_prefix ++ M ++ b_sep ++ text m)) with false.
  2:{ rewrite !contains_app, HMn, Htn. reflexivity. }
  replace (kind m ++ colon :: dec_z (pid m) ++ colon :: format_ts (ts m) ++ b_sep ++ text m)
    with (M ++ b_sep ++ text m).
  2:{ unfold M. rewrite <- !app_assoc. cbn [app]. rewrite <- !app_assoc. reflexivity. }
  rewrite find_sep_spec by assumption. cbn [rev app]. rewrite HMa.
  unfold M.
  change (kind m ++ colon :: dec_z (pid m) ++ colon :: format_ts (ts m))
    with (join colon [kind m; dec_z (pid m); format_ts (ts m)]).
  rewrite split_join.
  2: discriminate.
  2:{ cbn [forallb]. rewrite !contains_nosep; auto.
      - apply format_ts_no; reflexivity.
      - apply dec_z_no; reflexivity. }
  rewrite parse_i32_dec_z by assumption. rewrite parse_ts_format.
  destruct m; reflexivity.
Qed.

(* what is parsed back is exactly what the line carried after the first "@@ " *)
Lemma find_sep_sound s : forall acc m txt,
  find_sep acc s = Some (m, txt) -> exists m', m = rev acc ++ m' /\ s = m' ++ b_sep ++ txt.
Proof.
  induction s as [|c s IH]; intros acc m txt H; [discriminate|].
  cbn [find_sep] in H. destruct (strip_prefix b_sep (c :: s)) as [rest|] eqn:E.
  - inversion H; subst. exists []. rewrite app_nil_r. split; [reflexivity|].
    cbn [b_sep strip_prefix] in E.
    destruct (N.eqb 64 c) eqn:E1; [|discriminate]. apply N.eqb_eq in E1. subst c.
    destruct s as [|c2 s]; [discriminate|]. destruct (N.eqb 64 c2) eqn:E2; [|discriminate].
    apply N.eqb_eq in E2. subst c2.
    destruct s as [|c3 s]; [discriminate|]. destruct (N.eqb 32 c3) eqn:E3; [|discriminate].
    apply N.eqb_eq in E3. subst c3. inversion E. reflexivity.
  - apply IH in H as (m' & -> & ->). exists (c :: m'). cbn [rev]. rewrite <- app_assoc. split; reflexivity.
Qed.

Lemma strip_prefix_sound p : forall s r, strip_prefix p s = Some r -> s = p ++ r.
Proof.
  induction p as [|x p IH]; intros s r H; cbn in H; [now inversion H|].
  destruct s as [|y s]; [discriminate|]. destruct (N.eqb x y) eqn:E; [|discriminate].
  apply N.eqb_eq in E. subst. cbn. f_equal. now apply IH.
Qed.

Theorem parse_sound s m : parse s = Some m ->
  exists hdr, s = b_prefix ++ hdr ++ b_sep ++ text m /\ contains at_sign hdr = false
              /\ contains newline s = false
              /\ exists rest, split colon hdr = kind m :: rest.
Proof.
  unfold parse. destruct (strip_prefix b_prefix s) as [rest|] eqn:E; [|discriminate].
  apply strip_prefix_sound in E. destruct (contains newline s) eqn:En; [discriminate|].
  destruct (find_sep [] rest) as [[h txt]|] eqn:Ef; [|discriminate].
  apply find_sep_sound in Ef as (m' & -> & ->). cbn [rev app].
  destruct (contains at_sign m') eqn:Ea; [discriminate|].
  destruct (split colon m') as [|k [|p [|t l]]] eqn:Es; try discriminate.
  destruct (parse_i32 p); [|discriminate]. destruct (parse_ts t); [|discriminate].
  intro H. inversion H; subst. cbn. exists m'. repeat split; auto. eauto.
Qed.

(* done records *)
Lemma split_first_space_spec a b : forall acc,
  contains space a = false ->
  split_first_space acc (a ++ space :: b) = Some (rev acc ++ a, b).
Proof.
  induction a as [|c a IH]; intros acc H.
  - cbn. now rewrite app_nil_r.
  - rewrite contains_cons in H. apply orb_false_iff in H as [Hc Ha].
    cbn [app split_first_space]. rewrite N.eqb_sym, Hc. rewrite IH by assumption.
    cbn [rev]. now rewrite <- app_assoc.
Qed.

Theorem parse_done_roundtrip rv name :
  (i32_min <= rv <= i32_max)%Z -> parse_done_text (done_text rv name) = Some (rv, name).
Proof.
  intro H. unfold parse_done_text, done_text.
  rewrite split_first_space_spec by (apply dec_z_no; reflexivity).
  cbn [rev app]. now rewrite parse_i32_dec_z.
Qed.
