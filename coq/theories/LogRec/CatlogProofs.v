(* Proofs about the static log replay (LogRec/Catlog.v).
   1. every target's plain lines (and its unterminated last line) are shown
      exactly once, in order, if the target is reached, and not at all otherwise;
   2. a reader who attributes a plain line to the most recent "do X" /
      "resumed X" header attributes every plain line to the target whose log it
      came from. *)
From Coq Require Import List NArith ZArith Bool Lia.
Import ListNotations.
From Redo Require Import Base.Bytes Base.BytesProofs LogRec.Meta LogRec.Catlog.

(* ---------------------------------------------------------------- helpers *)
Lemma bytes_eqb_sym a b : bytes_eqb a b = bytes_eqb b a.
Proof.
  destruct (bytes_eqb a b) eqn:E.
  - apply bytes_eqb_eq in E. subst. symmetry. apply bytes_eqb_refl.
  - apply bytes_eqb_neq in E. symmetry. apply bytes_eqb_neq. congruence.
Qed.

Lemma mem_cons u x l : mem u (x :: l) = bytes_eqb u x || mem u l.
Proof. reflexivity. Qed.

Definition own_lines (u : bytes) (es : list lev) : list bytes :=
  flat_map (fun e => match e with
                     | EvText o l => if bytes_eqb u o then [l] else []
                     | EvTail o l => if bytes_eqb u o then [l] else []
                     | _ => []
                     end) es.

Lemma own_lines_app u a b : own_lines u (a ++ b) = own_lines u a ++ own_lines u b.
Proof. unfold own_lines. apply flat_map_app. Qed.

Lemma prepend_status es r : r_status (prepend es r) = r_status r.
Proof. reflexivity. Qed.
Lemma prepend_evs es r : r_evs (prepend es r) = es ++ r_evs r.
Proof. reflexivity. Qed.
Lemma prepend_already es r : r_already (prepend es r) = r_already r.
Proof. reflexivity. Qed.

Definition is_plain (l : bytes) : bool :=
  match parse (strip_nl l) with None => true | Some _ => false end.

Definition tail_lines (rest : bytes) : list bytes :=
  match rest with [] => [] | _ => [clean_line rest] end.

Definition body_of (ls : list bytes) (rest : bytes) : list bytes :=
  map clean_line (filter is_plain ls) ++ tail_lines rest.

Section Proofs.
  Variable lookup : bytes -> known.
  Variable rel : bytes -> bytes -> bytes.
  Variable flag_u : bool.

  (* what a reached target shows of its own: its plain lines in order, then its
     unterminated last line *)
  Definition body (u : bytes) : list bytes :=
    match lookup (rel [] u) with
    | KLog c => body_of (fst (log_lines c)) (snd (log_lines c))
    | _ => []
    end.

  Definition expected (al al' : list bytes) (u : bytes) : list bytes :=
    if mem u al then [] else if mem u al' then body u else [].

  Definition spec (c : bytes -> list bytes -> ret) : Prop :=
    forall t al, r_status (c t al) = SOk ->
      (forall u, mem u al = true -> mem u (r_already (c t al)) = true)
      /\ mem t (r_already (c t al)) = true
      /\ forall u, own_lines u (r_evs (c t al)) = expected al (r_already (c t al)) u.

  Section LoopProofs.
    Variable rec : bytes -> list bytes -> ret.
    Hypothesis Hrec : spec rec.
    Variable t mydir rest : bytes.

    Definition loop_post (ls : list bytes) (al : list bytes) (r : ret) : Prop :=
      (forall u, mem u al = true -> mem u (r_already r) = true)
      /\ forall u, own_lines u (r_evs r) =
           if bytes_eqb u t then body_of ls rest else expected al (r_already r) u.

    (* one nested expansion followed by a continuation that satisfies the
       post-condition for the remaining lines *)
    Lemma nested_post name al ls' k :
      mem t al = true ->
      (forall al1 got, mem t al1 = true -> r_status (k al1 got) = SOk -> loop_post ls' al1 (k al1 got)) ->
      r_status (nested rec name al k) = SOk ->
      loop_post ls' al (nested rec name al k).
    Proof.
      intros Ht Hk. unfold nested.
      destruct (r_status (rec name al)) eqn:Es; try discriminate.
      destruct (Hrec name al Es) as (Hmono & Hin & Hown).
      set (r1 := rec name al) in *.
      set (got := ((if negb (mem name al) then 1 else 0) + r_written r1)%nat).
      rewrite prepend_status. intro Hs.
      assert (Ht1 : mem t (name :: r_already r1) = true).
      { rewrite mem_cons. rewrite (Hmono t Ht). apply orb_true_r. }
      destruct (Hk _ got Ht1 Hs) as (Kmono & Kown).
      split.
      - intros u Hu. rewrite prepend_already. apply Kmono. rewrite mem_cons.
        rewrite (Hmono u Hu). apply orb_true_r.
      - intro u. rewrite prepend_evs, prepend_already, !own_lines_app, Kown, Hown.
        assert (Hh : own_lines u (if negb (mem name al) then [EvMeta k_do name] else []) = []).
        { destruct (negb (mem name al)); reflexivity. }
        rewrite Hh. cbn [app].
        destruct (bytes_eqb u t) eqn:Eut.
        + apply bytes_eqb_eq in Eut. subst u. unfold expected. rewrite Ht. reflexivity.
        + unfold expected. rewrite mem_cons.
          destruct (mem u al) eqn:Ea.
          * rewrite (Hmono u Ea). rewrite orb_true_r. reflexivity.
          * destruct (mem u (r_already r1)) eqn:E1.
            -- rewrite orb_true_r. rewrite app_nil_r.
               assert (mem u (r_already (k (name :: r_already r1) got)) = true) as ->.
               { apply Kmono. rewrite mem_cons, E1. apply orb_true_r. }
               reflexivity.
            -- destruct (bytes_eqb u name) eqn:En.
               ++ apply bytes_eqb_eq in En. subst u. congruence.
               ++ reflexivity.
    Qed.

    Lemma body_of_record l ls : is_plain l = false -> body_of (l :: ls) rest = body_of ls rest.
    Proof. intro H. unfold body_of. cbn [filter]. rewrite H. reflexivity. Qed.
    Lemma body_of_plain l ls : is_plain l = true -> body_of (l :: ls) rest = clean_line l :: body_of ls rest.
    Proof. intro H. unfold body_of. cbn [filter]. rewrite H. reflexivity. Qed.

    Lemma post_prepend_silent es ls al r l :
      is_plain l = false -> (forall u, own_lines u es = []) ->
      loop_post ls al r -> loop_post (l :: ls) al (prepend es r).
    Proof.
      intros Hl Hes (Hm & Ho). split; [exact Hm|].
      intro u. rewrite prepend_evs, prepend_already, own_lines_app, Hes, Ho, (body_of_record _ _ Hl). reflexivity.
    Qed.

    Lemma loop_spec : forall ls al i w,
      mem t al = true ->
      r_status (loop rel flag_u rec t mydir rest ls al i w) = SOk ->
      loop_post ls al (loop rel flag_u rec t mydir rest ls al i w).
    Proof.
      induction ls as [|l ls IH]; intros al i w Ht Hs.
      - cbn [loop] in *. split; [auto|]. intro u. cbn [r_evs r_already].
        unfold body_of, tail_lines. cbn [filter map app].
        destruct rest as [|c rest'].
        + cbn. destruct (bytes_eqb u t); [reflexivity|]. unfold expected. destruct (mem u al); reflexivity.
        + rewrite own_lines_app.
          assert (own_lines u (match i with O => [] | S _ => [EvMeta k_resumed t] end) = []) as -> by (destruct i; reflexivity).
          cbn [app own_lines flat_map]. rewrite app_nil_r.
          destruct (bytes_eqb u t) eqn:E; [reflexivity|].
          unfold expected. destruct (mem u al); reflexivity.
      - cbn [loop] in Hs |- *.
        destruct (parse (strip_nl l)) as [g|] eqn:Ep.
        + assert (Hl : is_plain l = false) by (unfold is_plain; rewrite Ep; reflexivity).
          destruct (bytes_eqb (kind g) k_unchanged).
          { destruct flag_u.
            - pose proof (nested_post (rel mydir (text g)) al ls
                            (fun al0 got => loop rel true rec t mydir rest ls al0 (i + got) (w + got)) Ht) as N.
              cbv beta in N. destruct N as (Nm & No); [intros al1 got H1 H2; apply IH; assumption|exact Hs|].
              split; [exact Nm|]. intro u. rewrite No, (body_of_record _ _ Hl). reflexivity.
            - destruct (IH al i w Ht Hs) as (Nm & No). split; [exact Nm|].
              intro u. rewrite No, (body_of_record _ _ Hl). reflexivity. }
          destruct (is_start_kind (kind g)).
          { destruct (text g) as [|c0 tx] eqn:Et; [discriminate|].
            pose proof (nested_post (rel mydir (c0 :: tx)) al ls
                          (fun al0 got => loop rel flag_u rec t mydir rest ls al0 (i + got) (w + got)) Ht) as N.
            cbv beta in N. destruct N as (Nm & No); [intros al1 got H1 H2; apply IH; assumption|exact Hs|].
            split; [exact Nm|]. intro u. rewrite No, (body_of_record _ _ Hl). reflexivity. }
          destruct (bytes_eqb (kind g) k_done).
          { destruct (parse_done_text (text g)) as [[rv name]|]; [|discriminate].
            rewrite prepend_status in Hs.
            apply post_prepend_silent; [exact Hl|intro u; reflexivity|]. apply IH; assumption. }
          rewrite prepend_status in Hs.
          apply post_prepend_silent; [exact Hl|intro u; reflexivity|]. apply IH; assumption.
        + assert (Hl : is_plain l = true) by (unfold is_plain; rewrite Ep; reflexivity).
          rewrite prepend_status in Hs.
          destruct (IH al 0%nat (S w) Ht Hs) as (Nm & No). split; [exact Nm|].
          intro u. rewrite prepend_evs, prepend_already, !own_lines_app, No.
          assert (own_lines u (match i with O => [] | S _ => [EvMeta k_resumed t] end) = []) as -> by (destruct i; reflexivity).
          cbn [app own_lines flat_map]. rewrite app_nil_r.
          destruct (bytes_eqb u t) eqn:E.
          * rewrite (body_of_plain _ _ Hl). reflexivity.
          * reflexivity.
    Qed.
  End LoopProofs.

  Lemma catlog_spec : forall fuel, spec (catlog lookup rel flag_u fuel).
  Proof.
    induction fuel as [|f IH]; intros t al Hs; [discriminate Hs|].
    cbn [catlog] in Hs |- *.
    destruct (mem t al) eqn:Ea.
    - cbn [r_status r_evs r_already]. repeat split; auto.
      intro u. unfold expected. cbn. destruct (mem u al); reflexivity.
    - destruct (lookup (rel [] t)) as [| |content] eqn:El.
      + discriminate Hs.
      + cbn [r_status r_evs r_already]. split; [|split].
        * intros u Hu. rewrite mem_cons, Hu. apply orb_true_r.
        * rewrite mem_cons, bytes_eqb_refl. reflexivity.
        * intro u. unfold expected. cbn [own_lines flat_map]. rewrite mem_cons.
          destruct (mem u al); [reflexivity|]. rewrite orb_false_r.
          destruct (bytes_eqb u t) eqn:E; [|reflexivity].
          apply bytes_eqb_eq in E. subst u. unfold body. rewrite El. reflexivity.
      + destruct (log_lines content) as [ls rest] eqn:Esp.
        assert (Ht : mem t (t :: al) = true) by (rewrite mem_cons, bytes_eqb_refl; reflexivity).
        destruct (loop_spec _ IH t (parent_dir t) rest ls (t :: al) 0%nat 0%nat Ht Hs) as (Nm & No).
        split; [|split].
        * intros u Hu. apply Nm. rewrite mem_cons, Hu. apply orb_true_r.
        * apply Nm. exact Ht.
        * intro u. rewrite No. unfold expected. rewrite mem_cons.
          destruct (bytes_eqb u t) eqn:E.
          -- apply bytes_eqb_eq in E. subst u. rewrite Ea.
             rewrite (Nm t Ht). unfold body. rewrite El, Esp. reflexivity.
          -- cbn [orb]. reflexivity.
  Qed.

  (* 1. complete, once, in order: after `redo-log -r t` from an empty set of
        names already shown, every name reached shows exactly its own lines *)
  Theorem catlog_lines_once fuel t u :
    r_status (catlog lookup rel flag_u fuel t []) = SOk ->
    own_lines u (r_evs (catlog lookup rel flag_u fuel t []))
    = if mem u (r_already (catlog lookup rel flag_u fuel t [])) then body u else [].
  Proof.
    intro Hs. destruct (catlog_spec fuel t [] Hs) as (_ & _ & Ho). rewrite Ho. reflexivity.
  Qed.
End Proofs.

(* ------------------------------------------------------------ attribution *)
Definition is_header (k : bytes) : bool := bytes_eqb k k_do || bytes_eqb k k_resumed.

Definition cur_step (cur : option bytes) (e : lev) : option bytes :=
  match e with
  | EvMeta k x => if is_header k then Some x else cur
  | _ => cur
  end.
Definition cur_after (cur : option bytes) (es : list lev) : option bytes := fold_left cur_step es cur.

(* the reader: a plain line belongs to the target named by the last header *)
Fixpoint well_attr (cur : option bytes) (es : list lev) : Prop :=
  match es with
  | [] => True
  | e :: es' =>
      match e with
      | EvText o _ => cur = Some o
      | EvTail o _ => cur = Some o
      | _ => True
      end /\ well_attr (cur_step cur e) es'
  end.

Lemma well_attr_app cur a b :
  well_attr cur (a ++ b) <-> well_attr cur a /\ well_attr (cur_after cur a) b.
Proof.
  revert cur. induction a as [|e a IH]; intro cur; cbn [app well_attr cur_after fold_left].
  - tauto.
  - rewrite IH. unfold cur_after. tauto.
Qed.

Section Attribution.
  Variable lookup : bytes -> known.
  Variable rel : bytes -> bytes -> bytes.
  Variable flag_u : bool.

  Definition aspec (c : bytes -> list bytes -> ret) : Prop :=
    forall t al, r_status (c t al) = SOk ->
      (mem t al = true -> r_evs (c t al) = [] /\ r_written (c t al) = 0%nat)
      /\ (mem t al = false -> well_attr (Some t) (r_evs (c t al))).

  Section LoopAttr.
    Variable rec : bytes -> list bytes -> ret.
    Hypothesis Hrec : aspec rec.
    Variable t mydir rest : bytes.

    Lemma nested_attr name al k i cur :
      (forall al1 got cur1, ((i + got)%nat = 0%nat -> cur1 = Some t) ->
          r_status (k al1 got) = SOk -> well_attr cur1 (r_evs (k al1 got))) ->
      (i = 0%nat -> cur = Some t) ->
      r_status (nested rec name al k) = SOk ->
      well_attr cur (r_evs (nested rec name al k)).
    Proof.
      intros Hk Hi. unfold nested.
      destruct (r_status (rec name al)) eqn:Es; try discriminate.
      destruct (Hrec name al Es) as (Hold & Hnew).
      rewrite prepend_status, prepend_evs. intro Hs.
      destruct (mem name al) eqn:Em; cbn [negb].
      - destruct (Hold eq_refl) as (He & Hw). rewrite He, Hw in *. cbn [app Nat.add negb] in *.
        apply Hk; [|exact Hs]. rewrite Nat.add_0_r. exact Hi.
      - cbn [app well_attr cur_step]. split; [exact I|].
        assert (is_header k_do = true) as -> by reflexivity.
        apply well_attr_app. split; [apply Hnew; reflexivity|].
        apply Hk; [|exact Hs]. intro H. exfalso. lia.
    Qed.

    Lemma loop_attr : forall ls al i w cur,
      (i = 0%nat -> cur = Some t) ->
      r_status (loop rel flag_u rec t mydir rest ls al i w) = SOk ->
      well_attr cur (r_evs (loop rel flag_u rec t mydir rest ls al i w)).
    Proof.
      induction ls as [|l ls IH]; intros al i w cur Hi Hs.
      - cbn [loop r_evs]. destruct rest as [|c rest']; [exact I|].
        destruct i as [|i'].
        + cbn. split; [auto|exact I].
        + cbn. split; [exact I|]. split; [reflexivity|exact I].
      - cbn [loop] in Hs |- *.
        destruct (parse (strip_nl l)) as [g|] eqn:Ep.
        + destruct (bytes_eqb (kind g) k_unchanged).
          { destruct flag_u.
            - apply nested_attr with (i := i); [|exact Hi|exact Hs].
              intros al1 got cur1 H1 H2. apply IH; assumption.
            - apply IH; assumption. }
          destruct (is_start_kind (kind g)).
          { destruct (text g) as [|c0 tx]; [discriminate|].
            apply nested_attr with (i := i); [|exact Hi|exact Hs].
            intros al1 got cur1 H1 H2. apply IH; assumption. }
          destruct (bytes_eqb (kind g) k_done).
          { destruct (parse_done_text (text g)) as [[rv name]|]; [|discriminate].
            rewrite prepend_status in Hs. rewrite prepend_evs. cbn [app well_attr cur_step].
            split; [exact I|]. assert (is_header k_done = false) as -> by reflexivity.
            apply IH; assumption. }
          rewrite prepend_status in Hs. rewrite prepend_evs. cbn [app well_attr cur_step].
          split; [exact I|]. apply IH; assumption.
        + rewrite prepend_status in Hs. rewrite prepend_evs.
          destruct i as [|i'].
          * cbn [app well_attr cur_step]. split; [auto|]. apply IH; [|exact Hs]. auto.
          * cbn [app well_attr cur_step]. split; [exact I|].
            assert (is_header k_resumed = true) as -> by reflexivity.
            split; [reflexivity|]. apply IH; [|exact Hs]. reflexivity.
    Qed.
  End LoopAttr.

  Lemma catlog_aspec : forall fuel, aspec (catlog lookup rel flag_u fuel).
  Proof.
    induction fuel as [|f IH]; intros t al Hs; [discriminate Hs|].
    cbn [catlog] in Hs |- *.
    destruct (mem t al) eqn:Ea.
    - cbn. split; [auto|discriminate].
    - split; [discriminate|]. intros _.
      destruct (lookup (rel [] t)) as [| |content]; [discriminate Hs|exact I|].
      destruct (log_lines content) as [ls rest].
      apply loop_attr; [exact IH|reflexivity|exact Hs].
  Qed.

  (* 2. under the right target: in the output of `redo-log -r [-u] roots` every
        plain line (and every unterminated last line) follows a "do X" or
        "resumed X" header naming the target whose log it came from, however
        the roots are spelled *)
  Theorem run_log_attributed : forall fuel ts al cur,
    fst (run_log lookup rel flag_u fuel ts al) = SOk ->
    well_attr cur (snd (run_log lookup rel flag_u fuel ts al)).
  Proof.
    intros fuel ts. induction ts as [|t ts IH]; intros al cur Hs; [exact I|].
    cbn [run_log] in Hs |- *. set (n := rel [] t) in *.
    destruct (r_status (catlog lookup rel flag_u fuel n al)) eqn:Es.
    - destruct (run_log lookup rel flag_u fuel ts (r_already (catlog lookup rel flag_u fuel n al))) as [s es] eqn:Er.
      cbn [fst snd] in Hs |- *. subst s.
      cbn [well_attr cur_step]. split; [exact I|].
      assert (is_header k_do = true) as -> by reflexivity.
      apply well_attr_app. destruct (catlog_aspec fuel n al Es) as (Hold & Hnew).
      split.
      + destruct (mem n al) eqn:Ea; [destruct (Hold eq_refl) as (-> & _); exact I|apply Hnew; reflexivity].
      + specialize (IH (r_already (catlog lookup rel flag_u fuel n al))
                       (cur_after (Some n) (r_evs (catlog lookup rel flag_u fuel n al)))).
        rewrite Er in IH. apply IH. reflexivity.
    - discriminate Hs.
    - discriminate Hs.
    - discriminate Hs.
  Qed.

  (* 1'. the same for a list of roots: what the whole command shows of a name's
         own lines is its body, once, if the name was reached at all *)
  Lemma run_log_lines : forall fuel ts al s es u,
    run_log lookup rel flag_u fuel ts al = (s, es) -> s = SOk ->
    exists al', (forall x, mem x al = true -> mem x al' = true)
      /\ own_lines u es = expected lookup rel al al' u.
  Proof.
    intros fuel ts. induction ts as [|t ts IH]; intros al s es u Hr Hs.
    - cbn in Hr. inversion Hr; subst. exists al. split; [auto|].
      unfold expected. cbn. destruct (mem u al); reflexivity.
    - cbn [run_log] in Hr. set (n := rel [] t) in *.
      destruct (r_status (catlog lookup rel flag_u fuel n al)) eqn:Es;
        try (inversion Hr; subst; discriminate).
      destruct (run_log lookup rel flag_u fuel ts (r_already (catlog lookup rel flag_u fuel n al))) as [s1 es1] eqn:Er.
      inversion Hr; subst s es. clear Hr.
      destruct (catlog_spec lookup rel flag_u fuel n al Es) as (Hm & _ & Ho).
      assert (Hs1 : s1 = SOk) by congruence. destruct (IH _ _ _ u Er Hs1) as (al' & Hm' & Ho').
      exists al'. split; [intros x Hx; apply Hm', Hm, Hx|].
      change (own_lines u (EvMeta k_do n :: r_evs (catlog lookup rel flag_u fuel n al) ++ es1))
        with (own_lines u (r_evs (catlog lookup rel flag_u fuel n al) ++ es1)).
      rewrite own_lines_app, Ho, Ho'. unfold expected.
      destruct (mem u al) eqn:Ea.
      + rewrite (Hm u Ea). reflexivity.
      + destruct (mem u (r_already (catlog lookup rel flag_u fuel n al))) eqn:E1.
        * rewrite (Hm' u E1). rewrite app_nil_r. reflexivity.
        * reflexivity.
  Qed.

  Theorem run_log_lines_once fuel ts u :
    fst (run_log lookup rel flag_u fuel ts []) = SOk ->
    own_lines u (snd (run_log lookup rel flag_u fuel ts [])) = []
    \/ own_lines u (snd (run_log lookup rel flag_u fuel ts [])) = body lookup rel u.
  Proof.
    intro Hs. destruct (run_log lookup rel flag_u fuel ts []) as [s es] eqn:Er. cbn [fst snd] in *.
    destruct (run_log_lines fuel ts [] s es u Er Hs) as (al' & _ & Ho).
    rewrite Ho. unfold expected. cbn [mem existsb]. destruct (mem u al'); auto.
  Qed.
End Attribution.

(* ------------------------------------------------ static = following *)
From Redo Require Import LogRec.Assemble.

Lemma split_lines_aux_spec : forall s cur_rev,
  nl_free cur_rev ->
  concat (fst (split_lines_aux cur_rev s)) ++ snd (split_lines_aux cur_rev s) = rev cur_rev ++ s
  /\ Forall is_line (fst (split_lines_aux cur_rev s)) /\ nl_free (snd (split_lines_aux cur_rev s)).
Proof.
  induction s as [|c s IH]; intros cur Hc; cbn [split_lines_aux].
  - cbn [fst snd concat app]. rewrite app_nil_r. split; [reflexivity|]. split; [constructor|].
    unfold nl_free in *. intro H. apply Hc. now apply in_rev.
  - destruct (N.eqb c newline) eqn:E.
    + apply N.eqb_eq in E. subst c.
      assert (Hn : nl_free (@nil N)) by (intros []).
      destruct (IH [] Hn) as (C & F & R). destruct (split_lines_aux [] s) as [ls rest].
      cbn [fst snd concat rev app] in *. split; [|split].
      * rewrite <- C. rewrite <- !app_assoc. reflexivity.
      * constructor; [|exact F]. exists (rev cur). split; [reflexivity|].
        unfold nl_free in *. intro H. apply Hc. now apply in_rev.
      * exact R.
    + assert (Hc' : nl_free (c :: cur)).
      { unfold nl_free in *. intros [H|H]; [|now apply Hc]. subst c. rewrite N.eqb_refl in E. discriminate. }
      destruct (IH (c :: cur) Hc') as (C & F & R). split; [|split]; [|exact F|exact R].
      rewrite C. cbn [rev]. rewrite <- app_assoc. reflexivity.
Qed.

(* whatever pieces read_until delivers while the log is being written, the
   follower ends up with the lines (and the unterminated rest) of the static
   model for the same bytes *)
Theorem follow_equals_static cs :
  Forall piece_ok cs -> assemble [] cs = split_lines (concat cs).
Proof.
  intro H.
  assert (Hn : nl_free (@nil N)) by (intros []).
  destruct (assemble_lines cs [] H Hn) as [L1 R1].
  pose proof (assemble_concat cs []) as C1. cbn [app] in C1.
  destruct (split_lines_aux_spec (concat cs) [] Hn) as (C2 & L2 & R2). cbn [rev app] in C2.
  unfold split_lines.
  destruct (assemble [] cs) as [ls1 h1], (split_lines_aux [] (concat cs)) as [ls2 h2]. cbn [fst snd] in *.
  destruct (lines_unique ls1 h1 ls2 h2 L1 R1 L2 R2) as [-> ->]; congruence.
Qed.
