(* The partial-line buffer of the log follower (catlog in src/bin/redo/log.rs):
   the follower reads the log with read_until('\n'), which returns either a
   piece ending in a newline or -- when the writer is in the middle of a line --
   a piece without one; pieces are appended to [line_head] until a newline
   arrives.  Whatever the fragmentation, the lines emitted are the lines of the
   stream: nothing lost, nothing duplicated, in order.  MODEL + PROOFS of the
   buffer logic only (the recursion into nested targets is not modelled). *)
From Coq Require Import List NArith Bool Lia.
Import ListNotations.
From Redo Require Import Base.Bytes.

Definition nl : N := 10%N.
Definition ends_nl (c : bytes) : bool := match rev c with x :: _ => N.eqb x nl | [] => false end.
Definition nl_free (c : bytes) : Prop := ~ In nl c.

(* what read_until can return: non-empty, a newline at most at the very end *)
Definition piece_ok (c : bytes) : Prop := c <> [] /\ nl_free (removelast c).

(* the loop of catlog on the pieces: (lines emitted, line_head left at the end) *)
Fixpoint assemble (head : bytes) (cs : list bytes) : list bytes * bytes :=
  match cs with
  | [] => ([], head)
  | c :: cs' =>
      if ends_nl c
      then let '(ls, h) := assemble [] cs' in ((head ++ c) :: ls, h)
      else assemble (head ++ c) cs'
  end.

(* nothing lost, nothing duplicated, order kept *)
Theorem assemble_concat : forall cs head,
  concat (fst (assemble head cs)) ++ snd (assemble head cs) = head ++ concat cs.
Proof.
  induction cs as [|c cs IH]; intro head; cbn [assemble concat].
  - cbn. now rewrite app_nil_r.
  - destruct (ends_nl c).
    + specialize (IH []). destruct (assemble [] cs) as [ls h]. cbn [fst snd concat] in *.
      rewrite <- app_assoc, IH. cbn. now rewrite <- app_assoc.
    + rewrite IH. now rewrite <- app_assoc.
Qed.

Lemma ends_nl_split c : ends_nl c = true -> exists b, c = b ++ [nl].
Proof.
  unfold ends_nl. destruct (rev c) as [|x r] eqn:E; [discriminate|]. intro H. apply N.eqb_eq in H. subst x.
  exists (rev r). rewrite <- (rev_involutive c), E. reflexivity.
Qed.

Lemma removelast_snoc {A} (b : list A) x : removelast (b ++ [x]) = b.
Proof. apply removelast_last. Qed.

Lemma ends_nl_false_free c : piece_ok c -> ends_nl c = false -> nl_free c.
Proof.
  intros [Hne Hfree] He. unfold nl_free in *. intro Hin.
  destruct (exists_last Hne) as (b & x & ->). rewrite removelast_snoc in Hfree.
  apply in_app_or in Hin as [Hin|[Hx|[]]]; [now apply Hfree|]. subst x.
  unfold ends_nl in He. rewrite rev_app_distr in He. cbn in He. discriminate.
Qed.

(* every emitted line is one complete line: a newline at its end and nowhere else;
   the head left over has none *)
Definition is_line (l : bytes) : Prop := exists b, l = b ++ [nl] /\ nl_free b.

Theorem assemble_lines : forall cs head,
  Forall piece_ok cs -> nl_free head ->
  Forall is_line (fst (assemble head cs)) /\ nl_free (snd (assemble head cs)).
Proof.
  induction cs as [|c cs IH]; intros head Hok Hh; cbn [assemble].
  - cbn. split; [constructor|exact Hh].
  - inversion Hok as [|c0 cs0 Hc Hcs]; subst.
    destruct (ends_nl c) eqn:E.
    + assert (Hn : nl_free (@nil N)) by (intros []).
      destruct (IH [] Hcs Hn) as [F1 F2]. destruct (assemble [] cs) as [ls h]. cbn [fst snd] in *.
      split; [|exact F2]. constructor; [|exact F1].
      apply ends_nl_split in E as [b ->]. exists (head ++ b). split; [now rewrite app_assoc|].
      destruct Hc as [_ Hf]. rewrite removelast_snoc in Hf.
      unfold nl_free in *. intro Hin. apply in_app_or in Hin as [Hin|Hin]; auto.
    + apply IH; [exact Hcs|]. pose proof (ends_nl_false_free c Hc E) as Hf.
      unfold nl_free in *. intro Hin. apply in_app_or in Hin as [Hin|Hin]; auto.
Qed.

(* a stream has one decomposition into complete lines plus a newline-free rest *)
Lemma lines_unique : forall ls1 h1 ls2 h2,
  Forall is_line ls1 -> nl_free h1 -> Forall is_line ls2 -> nl_free h2 ->
  concat ls1 ++ h1 = concat ls2 ++ h2 -> ls1 = ls2 /\ h1 = h2.
Proof.
  assert (Cut : forall b1 r1 b2 r2, nl_free b1 -> nl_free b2 -> b1 ++ nl :: r1 = b2 ++ nl :: r2 -> b1 = b2 /\ r1 = r2).
  { induction b1 as [|x b1 IH]; intros r1 b2 r2 F1 F2 H.
    - destruct b2 as [|y b2]; cbn in H; [inversion H; auto|].
      inversion H; subst y. exfalso. apply F2. now left.
    - destruct b2 as [|y b2]; cbn in H.
      + inversion H; subst x. exfalso. apply F1. now left.
      + inversion H; subst y. destruct (IH r1 b2 r2) as [-> ->]; auto.
        * intro Hin. apply F1. now right.
        * intro Hin. apply F2. now right. }
  induction ls1 as [|l1 ls1 IH]; intros h1 ls2 h2 F1 Hh1 F2 Hh2 H; pose proof Hh1 as Hh1'; pose proof Hh2 as Hh2'; unfold nl_free in Hh1', Hh2'.
  - destruct ls2 as [|l2 ls2]; cbn in H; [auto|].
    inversion F2 as [|x y (b & Hx & Hb) F2' Exy]. exfalso. apply Hh1'. rewrite H, Hx.
    rewrite <- !app_assoc. apply in_or_app. right. cbn. now left.
  - inversion F1 as [|x y (b1 & Hx1 & Hb1) F1' Exy1]. subst l1.
    destruct ls2 as [|l2 ls2]; cbn in H.
    + exfalso. apply Hh2'. rewrite <- H. rewrite <- !app_assoc. apply in_or_app. right. cbn. now left.
    + inversion F2 as [|x2 y2 (b2 & Hx2 & Hb2) F2' Exy2]. subst l2.
      rewrite <- !app_assoc in H. cbn in H.
      destruct (Cut _ _ _ _ Hb1 Hb2 H) as [-> Hr].
      destruct (IH h1 ls2 h2 F1' Hh1 F2' Hh2 Hr) as [-> ->]. auto.
Qed.

(* C18: the lines shown do not depend on how the bytes of the log arrive *)
Theorem assemble_fragmentation_independent cs1 cs2 :
  Forall piece_ok cs1 -> Forall piece_ok cs2 -> concat cs1 = concat cs2 ->
  assemble [] cs1 = assemble [] cs2.
Proof.
  intros H1 H2 Hc.
  assert (Hn : nl_free (@nil N)) by (intros []).
  destruct (assemble_lines cs1 [] H1 Hn) as [L1 R1]. destruct (assemble_lines cs2 [] H2 Hn) as [L2 R2].
  pose proof (assemble_concat cs1 []) as C1. pose proof (assemble_concat cs2 []) as C2. cbn [app] in C1, C2.
  destruct (assemble [] cs1) as [ls1 h1], (assemble [] cs2) as [ls2 h2]. cbn [fst snd] in *.
  destruct (lines_unique ls1 h1 ls2 h2 L1 R1 L2 R2) as [-> ->]; congruence.
Qed.
