(* Extraction of the executable models to OCaml.  Only ExtrOcamlBasic is
   used: bool, option, unit, list, prod, sumbool, sumor map to OCaml's;
   andb/orb are inlined.  N, Z, positive, nat stay Coq datatypes. *)
Require Extraction.
Require Import ExtrOcamlBasic.
From Redo Require Import Base.Bytes Paths.Norm Paths.Rel DoFiles.Candidates LogRec.Meta Build.Model.
From Redo Require Tokens.Model Sched.Locks Sched.BuildLock Sched.OnceRun LogRec.Catlog Sqlite.Wal.

Extraction Language OCaml.
Extraction "model.ml"
  normpath abs_path realdirpath relpath db_key
  possible_do_files arg1 arg2 arg3
  format parse parse_done_text done_text
  init_world run_history read_stamp first_runid stamp_eqb
  Tokens.Model.apply Tokens.Model.init Tokens.Model.Q Tokens.Model.find
  Sched.Locks.lapply Sched.Locks.empty Sched.BuildLock.blapply
  LogRec.Catlog.run_log LogRec.Catlog.render_ev
  Sched.OnceRun.oapply Sched.OnceRun.oinit Sched.OnceRun.olookup
  Sqlite.Wal.wal_step Sqlite.Wal.wal_init Sqlite.Wal.wal_abort.
