/* LD_PRELOAD shim for the crash harness (C10): counts the state-changing
 * system calls (through libc) of every process of a build in one global
 * counter (a small mmap'ed file named by VERIF_CRASH_CTR), logs them to
 * VERIF_CRASH_LOG, and at the index VERIF_CRASH_AT kills -- immediately
 * BEFORE the call is made -- either the calling process (VERIF_CRASH_MODE=proc)
 * or its whole process group (VERIF_CRASH_MODE=group).                    */
#define _GNU_SOURCE
#include <dlfcn.h>
#include <fcntl.h>
#include <signal.h>
#include <stdarg.h>
#include <stdio.h>
#include <stdlib.h>
#include <string.h>
#include <sys/mman.h>
#include <sys/stat.h>
#include <sys/types.h>
#include <unistd.h>

static volatile int *ctr;
static long crash_at = -2;
static int mode_group;
static const char *logpath;
static const char *root;      /* only paths under this directory count */

static void init(void) {
    if (crash_at != -2) return;
    const char *c = getenv("VERIF_CRASH_CTR");
    const char *a = getenv("VERIF_CRASH_AT");
    const char *m = getenv("VERIF_CRASH_MODE");
    logpath = getenv("VERIF_CRASH_LOG");
    root = getenv("VERIF_CRASH_ROOT");
    crash_at = a ? atol(a) : -1;
    mode_group = m && strcmp(m, "group") == 0;
    if (c) {
        int (*real_open)(const char *, int, ...) = dlsym(RTLD_NEXT, "open");
        int fd = real_open(c, O_RDWR);
        if (fd >= 0) {
            void *p = mmap(NULL, 4096, PROT_READ | PROT_WRITE, MAP_SHARED, fd, 0);
            if (p != MAP_FAILED) ctr = (volatile int *)p;
            close(fd);
        }
    }
}

static int under_root(const char *path) {
    if (!root || !path) return 0;
    char buf[4096];
    if (path[0] != '/') {
        if (!getcwd(buf, sizeof buf)) return 0;
        return strncmp(buf, root, strlen(root)) == 0;
    }
    return strncmp(path, root, strlen(root)) == 0;
}

static int fd_under_root(int fd, char *out, size_t n) {
    char link[64];
    snprintf(link, sizeof link, "/proc/self/fd/%d", fd);
    ssize_t k = readlink(link, out, n - 1);
    if (k <= 0) return 0;
    out[k] = 0;
    return root && strncmp(out, root, strlen(root)) == 0;
}

static void event(const char *what, const char *a, const char *b) {
    init();
    if (!ctr) return;
    int idx = __atomic_add_fetch((int *)ctr, 1, __ATOMIC_SEQ_CST);
    if (logpath) {
        int (*real_open)(const char *, int, ...) = dlsym(RTLD_NEXT, "open");
        ssize_t (*real_write)(int, const void *, size_t) = dlsym(RTLD_NEXT, "write");
        int fd = real_open(logpath, O_WRONLY | O_APPEND | O_CREAT, 0666);
        if (fd >= 0) {
            char line[1024];
            char comm[64] = "?";
            int cf = real_open("/proc/self/comm", O_RDONLY);
            if (cf >= 0) { ssize_t k = read(cf, comm, sizeof comm - 1); if (k > 0) { comm[k] = 0; if (comm[k-1] == '\n') comm[k-1] = 0; } close(cf); }
            int n = snprintf(line, sizeof line, "%d %d %s %s %s %s\n", idx, (int)getpid(), comm, what, a ? a : "-", b ? b : "-");
            real_write(fd, line, n);
            close(fd);
        }
    }
    if (crash_at > 0 && idx == crash_at) {
        if (mode_group) kill(0, SIGKILL);
        kill(getpid(), SIGKILL);
        for (;;) pause();
    }
}

int rename(const char *o, const char *n) {
    int (*real)(const char *, const char *) = dlsym(RTLD_NEXT, "rename");
    init();
    if (under_root(o) || under_root(n)) event("rename", o, n);
    return real(o, n);
}
int renameat(int od, const char *o, int nd, const char *n) {
    int (*real)(int, const char *, int, const char *) = dlsym(RTLD_NEXT, "renameat");
    init();
    if (under_root(o) || under_root(n)) event("rename", o, n);
    return real(od, o, nd, n);
}
int renameat2(int od, const char *o, int nd, const char *n, unsigned int f) {
    int (*real)(int, const char *, int, const char *, unsigned int) = dlsym(RTLD_NEXT, "renameat2");
    init();
    if (under_root(o) || under_root(n)) event("rename", o, n);
    return real(od, o, nd, n, f);
}
int unlink(const char *p) {
    int (*real)(const char *) = dlsym(RTLD_NEXT, "unlink");
    init();
    if (under_root(p)) event("unlink", p, NULL);
    return real(p);
}
int unlinkat(int d, const char *p, int f) {
    int (*real)(int, const char *, int) = dlsym(RTLD_NEXT, "unlinkat");
    init();
    if (under_root(p)) event("unlink", p, NULL);
    return real(d, p, f);
}
int ftruncate(int fd, off_t len) {
    int (*real)(int, off_t) = dlsym(RTLD_NEXT, "ftruncate");
    char path[4096];
    init();
    if (fd_under_root(fd, path, sizeof path)) event("ftruncate", path, NULL);
    return real(fd, len);
}
int ftruncate64(int fd, off_t len) {
    int (*real)(int, off_t) = dlsym(RTLD_NEXT, "ftruncate64");
    char path[4096];
    init();
    if (fd_under_root(fd, path, sizeof path)) event("ftruncate", path, NULL);
    return real(fd, len);
}
static int creating(int flags) { return (flags & O_CREAT) || (flags & O_TRUNC); }
int open(const char *p, int flags, ...) {
    int (*real)(const char *, int, ...) = dlsym(RTLD_NEXT, "open");
    mode_t m = 0;
    if (flags & (O_CREAT | O_TMPFILE)) { va_list ap; va_start(ap, flags); m = va_arg(ap, mode_t); va_end(ap); }
    init();
    if (creating(flags) && under_root(p)) event("create", p, NULL);
    return real(p, flags, m);
}
int open64(const char *p, int flags, ...) {
    int (*real)(const char *, int, ...) = dlsym(RTLD_NEXT, "open64");
    mode_t m = 0;
    if (flags & (O_CREAT | O_TMPFILE)) { va_list ap; va_start(ap, flags); m = va_arg(ap, mode_t); va_end(ap); }
    init();
    if (creating(flags) && under_root(p)) event("create", p, NULL);
    return real(p, flags, m);
}
int openat(int d, const char *p, int flags, ...) {
    int (*real)(int, const char *, int, ...) = dlsym(RTLD_NEXT, "openat");
    mode_t m = 0;
    if (flags & (O_CREAT | O_TMPFILE)) { va_list ap; va_start(ap, flags); m = va_arg(ap, mode_t); va_end(ap); }
    init();
    if (creating(flags) && under_root(p)) event("create", p, NULL);
    return real(d, p, flags, m);
}
int openat64(int d, const char *p, int flags, ...) {
    int (*real)(int, const char *, int, ...) = dlsym(RTLD_NEXT, "openat64");
    mode_t m = 0;
    if (flags & (O_CREAT | O_TMPFILE)) { va_list ap; va_start(ap, flags); m = va_arg(ap, mode_t); va_end(ap); }
    init();
    if (creating(flags) && under_root(p)) event("create", p, NULL);
    return real(d, p, flags, m);
}
/* writes to the state database and its write-ahead log */
static int is_db(const char *path) { return strstr(path, "/.redo/db.sqlite3") != NULL; }
ssize_t write(int fd, const void *b, size_t n) {
    ssize_t (*real)(int, const void *, size_t) = dlsym(RTLD_NEXT, "write");
    char path[4096];
    init();
    if (ctr && fd > 2 && fd_under_root(fd, path, sizeof path) && is_db(path)) event("dbwrite", path, NULL);
    return real(fd, b, n);
}
ssize_t pwrite(int fd, const void *b, size_t n, off_t o) {
    ssize_t (*real)(int, const void *, size_t, off_t) = dlsym(RTLD_NEXT, "pwrite");
    char path[4096];
    init();
    if (ctr && fd_under_root(fd, path, sizeof path) && is_db(path)) event("dbwrite", path, NULL);
    return real(fd, b, n, o);
}
ssize_t pwrite64(int fd, const void *b, size_t n, off_t o) {
    ssize_t (*real)(int, const void *, size_t, off_t) = dlsym(RTLD_NEXT, "pwrite64");
    char path[4096];
    init();
    if (ctr && fd_under_root(fd, path, sizeof path) && is_db(path)) event("dbwrite", path, NULL);
    return real(fd, b, n, o);
}
