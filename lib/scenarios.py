"""Fixed scenarios on the real binaries (scenarios/*.sh, indexed by scenarios/INDEX.json).
Each script takes the bin directory, builds its own temporary project, prints what it
observes and exits 1 when the property is violated.  A scenario may name the class of a
finding recorded in KNOWN_FINDINGS; it is then reported as KNOWN-FINDING, not as a violation,
for as long as the class is listed there."""
import json
import os
import subprocess
import common

DIR = os.path.join(common.VERIF, "scenarios")


def stray_state_dir():
    """a .redo in an ancestor of the temporary directory would be taken for the
    base of every fresh scratch project (base selection walks up): the scenarios
    would then measure somebody else's database, not the code"""
    import tempfile
    d = os.path.realpath(tempfile.gettempdir())
    while True:
        if os.path.isdir(os.path.join(d, ".redo")):
            return os.path.join(d, ".redo")
        if d == "/":
            return None
        d = os.path.dirname(d)


def run(prop, bindir):
    out = {"evaluations": 0, "violations": [], "scenarios": []}
    stray = stray_state_dir()
    if stray:
        out["skipped"] = "environment: a state directory exists at %s; fixed scenarios not run" % stray
        return out
    index = json.load(open(os.path.join(DIR, "INDEX.json")))
    env = dict(os.environ)
    for k in list(env):
        if k.startswith("REDO") or k == "MAKEFLAGS":
            del env[k]
    for sc in index:
        if prop not in sc["properties"]:
            continue
        out["evaluations"] += 1
        try:
            p = subprocess.run(["bash", os.path.join(DIR, sc["script"]), bindir], env=env, stdout=subprocess.PIPE, stderr=subprocess.STDOUT,
                               timeout=180, start_new_session=True)
            rc, text = p.returncode, p.stdout.decode(errors="replace")
        except subprocess.TimeoutExpired:
            rc, text = 124, "timeout"
        out["scenarios"].append({"script": sc["script"], "exit": rc})
        if rc != 0 and stray_state_dir():
            out["skipped"] = "environment: a state directory appeared above the temporary directory while %s ran" % sc["script"]
            continue
        if rc != 0:
            out["violations"].append({"oracle": "fixed scenario: " + sc["title"], "script": "scenarios/" + sc["script"], "exit": rc,
                                      "output": text[-700:], "known_class": sc["known_class"],
                                      "history": "bash /verif/scenarios/%s <bindir>" % sc["script"]})
    return out
