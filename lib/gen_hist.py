"""Generator of projects + histories for the serial end-to-end harness.
Every random choice comes from the Random instance passed in."""

SOURCES = ["s0", "s1", "s2"]
WATCH = ["w0", "w1"]


class Gen:
    def __init__(self, r, profile="general"):
        self.r = r
        self.profile = profile
        self.tok = 100
        self.scripts = {}      # do-file name -> dict
        self.targets = []      # explicit targets t0..
        self.gtargets = []     # targets built by default rules
        self.steps = []
        self.exists = set()    # user-visible files we believe exist (approximate)
        self.stats = {}

    def count(self, k):
        self.stats[k] = self.stats.get(k, 0) + 1

    def newtok(self):
        self.tok += 1
        return self.tok

    def emit_do(self, name, sc):
        self.scripts[name] = dict(sc)
        self.steps.append("D %s %s %s %d %d %s %d %d %d%s" % (
            name, ",".join(sc["deps"]) or "-", ",".join(sc["ifc"]) or "-", sc["always"], sc["stamp"],
            sc["out"], sc["payload"], sc["cat"], sc["exit"], " 1" if sc.get("tol") else ""))
        if sc.get("tol"):
            self.count("tolerant_script")

    def rand_script(self, avail, allow_fail=True):
        r = self.r
        p = self.profile
        k = r.choice([0, 1, 1, 2, 2, 3]) if avail else 0
        deps = r.sample(avail, min(k, len(avail)))
        sc = {
            "deps": deps,
            "ifc": (r.choice([[WATCH[0]], [WATCH[1]], [WATCH[0], WATCH[1]], [WATCH[1], WATCH[0]]])
                    if r.random() < (0.35 if p == "ifcreate" else 0.12) else []),
            "always": 1 if r.random() < (0.4 if p == "always" else 0.1) else 0,
            "stamp": 1 if r.random() < (0.6 if p == "stamp" else 0.25) else 0,
            "out": r.choices(["S", "3", "N", "B", "D"], weights=[40, 40, 4, 4, 6] if p != "outputs" else [25, 25, 15, 15, 20])[0],
            "payload": self.newtok(),
            "cat": 1 if r.random() < 0.85 else 0,
            "exit": (r.choice([1, 2, 7, 42]) if allow_fail and r.random() < (0.3 if p == "failures" else 0.1) else 0),
        }
        # "redo-ifchange deps || true": the script survives the failure of a dependency
        sc["tol"] = 1 if (deps and r.random() < (0.3 if p == "failures" else 0.04)) else 0
        if sc["tol"] and p == "failures" and r.random() < 0.6:
            sc["cat"] = 0
        return sc

    def project(self):
        r = self.r
        for s in SOURCES:
            self.steps.append("W %s %d" % (s, self.newtok()))
            self.exists.add(s)
        n = r.randint(2, 6)
        avail = list(SOURCES)
        # default rules
        if r.random() < (0.9 if self.profile == "defaults" else 0.35):
            ext = r.choice([".x", ".y.x"])
            self.emit_do("default%s.do" % ext, self.rand_script(list(SOURCES), allow_fail=False))
            if r.random() < 0.5:
                self.emit_do("default.x.do" if ext != ".x" else "default.do", self.rand_script(list(SOURCES), allow_fail=False))
            for i in range(r.randint(1, 2)):
                # names that repeat the matched extension (g0.x.x, g1.y.x.y.x) included
                g = "g%d%s" % (i, r.choice([".y.x", ".x", ".x.x", ".y.x.y.x", ".x.y.x"]))
                if g not in self.gtargets:
                    self.gtargets.append(g)
            avail += self.gtargets
        for i in range(n):
            t = "t%d" % i
            self.targets.append(t)
            self.emit_do(t + ".do", self.rand_script(avail))
            avail.append(t)
        if self.profile == "cycles" or r.random() < 0.04:
            # close a cycle: an early target depends on a later one (or on itself)
            a = r.choice(self.targets)
            b = r.choice(self.targets)
            sc = dict(self.scripts[a + ".do"])
            sc["deps"] = list(sc["deps"]) + ([b] if b not in sc["deps"] else [])
            self.emit_do(a + ".do", sc)
            self.count("cycle_edge")

    def all_targets(self):
        return self.targets + self.gtargets

    def build_step(self):
        r = self.r
        c = "redo" if r.random() < 0.25 else "ifchange"
        k = "k1" if r.random() < (0.5 if self.profile == "failures" else 0.15) else "k0"
        pool = self.all_targets()
        ts = r.sample(pool, min(len(pool), r.choice([1, 1, 1, 2, 3])))
        x = r.random()
        if x < 0.06:
            ts.append(r.choice(SOURCES))
        elif x < 0.09:
            ts.append("nosuch")
        elif x < 0.12 and ts:
            ts.append(ts[0])
        self.steps.append("C %s %s %s" % (c, k, ",".join(ts)))
        self.count("cmd_" + c)
        y = r.random()
        if y < 0.2:
            self.steps.append("C ifchange %s %s" % (k, ",".join(ts)))
            self.count("repeat_build")
        elif y < 0.3:
            self.steps.append("C ood k0 -")
            self.count("ood_after_build")

    def tolerant_episode(self):
        """a script that survives the failure of a dependency: built, asked for again, listed by redo-ood, repaired"""
        r = self.r
        cands = [t for t in self.targets if self.scripts.get(t + ".do", {}).get("deps")]
        if not cands:
            return
        t = r.choice(cands)
        sc = dict(self.scripts[t + ".do"])
        inner = [d for d in sc["deps"] if d in self.targets]
        if not inner:
            return
        d = r.choice(inner)
        sc["tol"] = 1
        sc["cat"] = 0 if r.random() < 0.7 else sc["cat"]
        sc["exit"] = 0
        self.emit_do(t + ".do", sc)
        dsc = dict(self.scripts[d + ".do"])
        dsc["exit"] = r.choice([1, 3, 9])
        self.emit_do(d + ".do", dsc)
        self.steps.append("C ifchange k0 %s" % t)
        if r.random() < 0.6:
            # asked for twice in ONE command: by a dependent and on the command line (finding F23)
            self.emit_do("tp.do", {"deps": [t], "ifc": [], "always": 0, "stamp": 0, "out": "S", "payload": self.newtok(), "cat": 0, "exit": 0, "tol": 0})
            self.steps.append("C ifchange k1 %s" % r.choice(["tp,%s" % t, "%s,tp" % t, "tp,%s,tp" % t]))
            self.count("tolerant_requested_twice")
        for _ in range(r.randint(1, 2)):
            self.steps.append(r.choice(["C ifchange k0 %s" % t, "C ood k0 -", "C ifchange k0 %s" % t]))
        if r.random() < 0.6:
            dsc["exit"] = 0
            dsc["payload"] = self.newtok()
            self.emit_do(d + ".do", dsc)
            self.steps.append("C ifchange k0 %s" % t)
        self.count("tolerant_episode")

    def orphan_episode(self):
        """a target whose rebuild fails (its old file stays), then loses its rule while the file is kept:
        it becomes a source; consumers are rebuilt once and then stay quiet (seeded change c02-d)"""
        r = self.r
        cands = [t for t in self.targets if any(d in self.targets for d in self.scripts.get(t + ".do", {}).get("deps", []))]
        if not cands:
            return
        t = r.choice(cands)
        d = r.choice([x for x in self.scripts[t + ".do"]["deps"] if x in self.targets])
        if d + ".do" not in self.scripts:
            return
        dsc = dict(self.scripts[d + ".do"])
        dsc.update({"exit": 0, "out": r.choice(["S", "3"]), "always": 0})
        self.emit_do(d + ".do", dsc)
        self.steps.append("C ifchange k0 %s" % t)
        dsc = dict(dsc, exit=r.choice([1, 3]), payload=self.newtok())
        self.emit_do(d + ".do", dsc)
        self.steps.append("C ifchange k0 %s" % t)          # fails; d's old file stays
        self.steps.append("R %s.do" % d)
        del self.scripts[d + ".do"]
        for _ in range(r.randint(2, 3)):
            self.steps.append("C ifchange k0 %s" % t)      # d is a source now: one rebuild at most, then nothing
        self.count("orphan_episode")

    def override_gone_episode(self):
        """a generated target is edited by hand, a build notices it (override recorded), then the file is
        removed and the listing commands are asked BEFORE the next build: the name is a target that
        the next redo-ifchange will rebuild, so redo-ood / redo-targets must list it (seeded change c17-c)"""
        r = self.r
        cands = [t for t in self.targets if t + ".do" in self.scripts and not self.scripts[t + ".do"].get("exit")
                 and self.scripts[t + ".do"].get("out") in ("S", "3")]
        if not cands:
            return
        t = r.choice(cands)
        self.steps.append("C ifchange k0 %s" % t)
        self.steps.append("W %s %d" % (t, self.newtok()))
        self.steps.append("C %s k0 %s" % (r.choice(["ifchange", "ifchange", "redo"]), t))     # "you modified it"
        if r.random() < 0.3:
            self.steps.append("W %s %d" % (t, self.newtok()))                                  # edited again
            self.steps.append("C ifchange k0 %s" % t)
        self.steps.append("R %s" % t)
        for q in r.sample(["ood", "targets", "sources"], r.randint(2, 3)):
            self.steps.append("C %s k0 -" % q)
        self.steps.append("C ifchange k0 %s" % t)
        self.steps.append("C %s k0 -" % r.choice(["ood", "targets"]))
        self.count("override_gone_episode")

    def reversed_dep_episode(self):
        """a dependency is turned round: rb needed ra; then ra needs rb and rb no longer needs ra.  The
        scripts are acyclic at all times; rb's recorded edge rb -> ra is met while ra is in mid-build
        (finding F66: that was reported as a cycle, 208)"""
        r = self.r
        base = {"ifc": [], "always": 0, "stamp": r.choice([0, 0, 1]), "out": r.choice(["S", "3"]), "cat": r.choice([0, 1]), "exit": 0, "tol": 0}
        self.emit_do("ra.do", dict(base, deps=["s0"], payload=self.newtok()))
        self.emit_do("rb.do", dict(base, deps=["ra"], stamp=0, payload=self.newtok()))
        first = r.choice([["ra", "rb"], ["rb"], ["ra,rb"], ["rb,ra"]])
        for c in first:
            self.steps.append("C ifchange k0 %s" % c)
        self.emit_do("ra.do", dict(base, deps=["s0", "rb"], payload=self.newtok()))
        self.emit_do("rb.do", dict(base, deps=r.choice([[], ["s1"]]), stamp=0, payload=self.newtok()))
        if r.random() < 0.5:
            self.steps.append("W s0 %d" % self.newtok())
        self.steps.append("C ifchange k0 %s" % r.choice(["ra", "ra,rb", "rb,ra", "rb"]))
        self.steps.append("C ifchange k0 ra,rb")
        self.count("reversed_dep_episode")

    def oob_cycle_episode(self):
        """T -> (m ->) d, d checksummed over a source; after a good build the source changes and d starts
        to ask for T (or m): the cycle closes while d is rebuilt out of band (finding F21)"""
        r = self.r
        mid = r.random() < 0.5
        base = {"ifc": [], "always": 0, "stamp": 0, "out": r.choice(["S", "3"]), "cat": 1, "exit": 0, "tol": 0}
        self.emit_do("od.do", dict(base, deps=["s0"], stamp=1, payload=self.newtok()))
        if mid:
            self.emit_do("om.do", dict(base, deps=["od"], payload=self.newtok()))
        self.emit_do("oT.do", dict(base, deps=["om" if mid else "od"], payload=self.newtok()))
        self.steps.append("C ifchange k0 oT")
        self.steps.append("W s0 %d" % self.newtok())
        back = r.choice(["oT", "om"] if mid else ["oT"])
        self.emit_do("od.do", dict(base, deps=["s0", back], stamp=1, payload=self.scripts["od.do"]["payload"]))
        self.steps.append("C ifchange k0 oT")
        if r.random() < 0.5:
            # the cycle is removed again: everything recovers
            self.emit_do("od.do", dict(base, deps=["s0"], stamp=1, payload=self.scripts["od.do"]["payload"]))
            self.steps.append("C ifchange k0 oT")
        self.count("oob_cycle_episode")

    def history(self, nsteps):
        r = self.r
        self.project()
        self.build_step()
        if self.profile == "failures" and r.random() < 0.5:
            self.tolerant_episode()
        if self.profile == "cycles" and r.random() < 0.5:
            self.oob_cycle_episode()
        if self.profile in ("failures", "general", "override") and r.random() < (0.35 if self.profile == "failures" else 0.12):
            self.orphan_episode()
        if self.profile in ("general", "override") and r.random() < 0.2:
            self.override_gone_episode()
        if self.profile in ("general", "cycles") and r.random() < (0.4 if self.profile == "cycles" else 0.12):
            self.reversed_dep_episode()
        for _ in range(nsteps):
            x = r.random()
            if x < 0.38:
                self.build_step()
            elif x < 0.52:
                s = r.choice(SOURCES)
                self.steps.append("W %s %d" % (s, self.newtok()))
                self.count("edit_source")
            elif x < 0.64:
                # edit a script: new payload / drop or add a dep / repair or break
                name = r.choice(sorted(self.scripts))
                sc = dict(self.scripts[name])
                y = r.random()
                if y < 0.3:
                    sc["payload"] = self.newtok()
                elif y < 0.5 and sc["deps"]:
                    sc["deps"] = sc["deps"][:-1]
                    self.count("drop_dep")
                elif y < 0.65:
                    sc["exit"] = 0 if sc["exit"] else r.choice([1, 3])
                elif y < 0.8:
                    sc["stamp"] = 1 - sc["stamp"]
                elif y < 0.9:
                    sc["always"] = 1 - sc["always"]
                else:
                    sc["out"] = r.choice(["S", "3", "N", "B", "D"])
                self.emit_do(name, sc)
                self.count("edit_do")
            elif x < 0.70:
                t = r.choice(self.all_targets())
                self.steps.append("R %s" % t)
                self.count("remove_target")
            elif x < (0.90 if self.profile == "override" else 0.75):
                # user overwrites a (maybe generated) target by hand
                if self.profile == "override" and getattr(self, "fav", None) is None:
                    self.fav = r.choice(self.all_targets())
                t = self.fav if (self.profile == "override" and r.random() < 0.7) else r.choice(self.all_targets())
                self.steps.append("W %s %d" % (t, self.newtok()))
                self.count("user_overwrite")
                if self.profile == "override" and r.random() < 0.7:
                    self.steps.append("C %s k0 %s" % (r.choice(["redo", "ifchange"]), t))
                    self.count("cmd_after_overwrite")
            elif x < 0.80:
                w = r.choice(WATCH)
                if r.random() < 0.6:
                    self.steps.append("W %s %d" % (w, self.newtok()))
                else:
                    self.steps.append("R %s" % w)
                self.count("watch_toggle")
            elif x < 0.84 and self.gtargets:
                # a specific .do takes over from a default rule, or goes away again
                g = r.choice(self.gtargets)
                nm = g + ".do"
                if nm in self.scripts and r.random() < 0.6:
                    self.steps.append("R %s" % nm)
                    del self.scripts[nm]
                else:
                    self.emit_do(nm, self.rand_script(list(SOURCES), allow_fail=False))
                self.count("reselect")
            elif x < 0.87:
                s = r.choice(SOURCES)
                self.steps.append("R %s" % s)
                self.count("remove_source")
            elif x < 0.90:
                name = r.choice(sorted(self.scripts))
                self.steps.append("R %s" % name)
                del self.scripts[name]
                if not self.scripts:
                    self.emit_do("t0.do", self.rand_script(list(SOURCES)))
                self.count("remove_do")
            else:
                self.steps.append("C %s k0 -" % r.choice(["ood", "targets", "sources"]))
                self.count("query")
        return " ; ".join(self.steps)


def generate(r, n, profile="general", nsteps=(5, 10)):
    out = []
    stats = {}
    for _ in range(n):
        g = Gen(r, profile)
        out.append(g.history(r.randint(*nsteps)))
        for k, v in g.stats.items():
            stats[k] = stats.get(k, 0) + v
    return out, stats
