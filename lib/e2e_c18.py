"""C18 part (b) on the implementation: every line a script writes to stderr
appears exactly once, in order, among the lines attributed to its target, in
the live output of the top-level command and in a later `redo-log` replay."""
import os
import re
import subprocess
import common
import e2e
import par

REC = re.compile(r"^@@REDO:([^:@]*):(-?\d+):([0-9.]+)@@ (.*)$")


def mk_script(name, deps, lines, partial=False, recordlike=None, frag=None):
    # every line carries the generation number of the build that printed it (file `gen`):
    # a rebuild must show ITS lines, live and replayed, not those of the previous log
    L = ["redo-ifchange gen", "G=$(cat gen)"]
    lines = [l + "-g'$G'" for l in lines]
    if frag:
        frag = frag[:-1] + [frag[-1] + "-g'$G'"]
    half = len(lines) // 2
    if frag:
        # one line that reaches the log in several pieces, with pauses long enough for the follower to read each piece by itself
        for piece in frag[:-1]:
            L.append("printf '%s' >&2; sleep 0.35" % piece)
        L.append("echo '%s' >&2" % frag[-1])
    for l in lines[:half]:
        L.append("echo '%s' >&2" % l)
    if deps:
        L.append("redo-ifchange " + " ".join(deps))
    for l in lines[half:]:
        L.append("echo '%s' >&2" % l)
    if recordlike:
        L.append("echo '%s' >&2" % recordlike)
    if partial:
        L.append("printf 'partial-%s-no-newline' >&2" % name)
    L.append("echo out-%s" % name)
    return "\n".join(L) + "\n"


def attribute(text, root_names):
    """Parse a raw (--no-pretty) log stream into {target: [lines]} using the do/resumed markers."""
    cur = None
    out = {}
    seq = []
    pieces = []
    for raw in text.split("\n"):
        # an unterminated partial line is followed on the same physical line by the next record
        k = raw.find("@@REDO:")
        if k > 0 and REC.match(raw[k:]):
            pieces.append(raw[:k])
            pieces.append(raw[k:])
        else:
            pieces.append(raw)
    for raw in pieces:
        if raw == "":
            continue
        m = REC.match(raw)
        if m:
            kind, body = m.group(1), m.group(4)
            # (the name as it stands: a target's name may end in white space)
            if kind == "do":
                cur = body
            elif kind == "resumed":
                cur = body
            elif kind == "done":
                pass
            seq.append((kind, body))
            continue
        out.setdefault(cur, []).append(raw)
    return out, seq


def one_project(bindir, r, jobs, with_recordlike, with_fragments=False):
    n = r.randint(3, 7)
    names = ["n%d" % i for i in range(n)]
    deps = {}
    lines = {}
    for i, nm in enumerate(names):
        deps[nm] = r.sample(names[:i], min(i, r.choice([0, 1, 2])))
        # some scripts are silent: what their parent prints next must still be the parent's
        k = 0 if r.random() < 0.3 else r.randint(1, 6)
        ls = []
        for q in range(k):
            base = "L-%s-%d" % (nm, q)
            if r.random() < 0.15:
                base += "-" + "x" * r.randint(300, 3000)
            if r.random() < 0.1:
                base += "   "
            ls.append(base)
        lines[nm] = ls
    root = names[-1]
    if not lines[root]:
        lines[root] = ["L-%s-0" % root, "L-%s-1" % root]
    for nm in names:
        # a silent dependency requested last: the parent's next line follows its header directly
        sil = [d for d in deps[nm] if not lines[d]]
        if sil and lines[nm] and r.random() < 0.7:
            d = r.choice(sil)
            deps[nm] = [x for x in deps[nm] if x != d] + [d]
            if len(lines[nm]) < 2:
                lines[nm] = lines[nm] + ["L-%s-tail" % nm]
    for nm in names[:-1]:
        if not any(nm in deps[x] for x in names):
            deps[root].append(nm)
    partial = {nm: (r.random() < 0.15) for nm in names}
    frags = {}
    if with_fragments:
        nm = r.choice(names)
        k = r.randint(3, 5)
        frags[nm] = ["L-%s-frag%d." % (nm, q) for q in range(k)]
        lines[nm] = ["".join(frags[nm])] + lines[nm]
    ghost = None
    if with_recordlike:
        victim = r.choice(names)
        ghost = (victim, "@@REDO:do:1:1.0000@@ ghost")
    pp = par.ParProject(bindir, {}, "c18")
    try:
        for nm in names:
            with open(os.path.join(pp.root, nm + ".do"), "w") as f:
                f.write(mk_script(nm, deps[nm], lines[nm][1:] if nm in frags else lines[nm], partial[nm],
                                  ghost[1] if ghost and ghost[0] == nm else None, frags.get(nm)))
        env = dict(pp.pr.env)
        for k in ("REDO_LOG", "REDO_PRETTY", "REDO_COLOR"):
            env.pop(k, None)
        with open(os.path.join(pp.root, "gen"), "w") as f:
            f.write("1\n")
        p = subprocess.run(["redo", "--no-pretty", "--no-color", "--no-status", "-j%d" % jobs, root], cwd=pp.root, env=env,
                           stdin=subprocess.DEVNULL, stdout=subprocess.PIPE, stderr=subprocess.PIPE, timeout=120, start_new_session=True)
        live = p.stderr.decode(errors="replace") + p.stdout.decode(errors="replace")
        q = subprocess.run(["redo-log", "-r", "--no-pretty", "--no-color", "--no-status", root], cwd=pp.root, env=env,
                           stdin=subprocess.DEVNULL, stdout=subprocess.PIPE, stderr=subprocess.PIPE, timeout=120, start_new_session=True)
        replay = q.stdout.decode(errors="replace")
        out = {"names": names, "deps": deps, "lines": {k: [l + "-g1" for l in v] for k, v in lines.items()}, "partial": partial, "ghost": ghost,
               "rc": p.returncode, "rc_log": q.returncode,
               "live": live, "replay": replay, "jobs": jobs, "replay_err": q.stderr.decode(errors="replace")[-300:]}
        if not with_fragments and r.random() < 0.6:
            # second generation: everything is rebuilt over existing logs
            import time
            time.sleep(0.02)
            with open(os.path.join(pp.root, "gen"), "w") as f:
                f.write("2\n")
            p2 = subprocess.run(["redo", "--no-pretty", "--no-color", "--no-status", "-j%d" % jobs, root],
                                cwd=pp.root, env=env,
                                stdin=subprocess.DEVNULL, stdout=subprocess.PIPE, stderr=subprocess.PIPE, timeout=120, start_new_session=True)
            q2 = subprocess.run(["redo-log", "-r", "--no-pretty", "--no-color", "--no-status", root], cwd=pp.root, env=env,
                                stdin=subprocess.DEVNULL, stdout=subprocess.PIPE, stderr=subprocess.PIPE, timeout=120, start_new_session=True)
            out["second"] = {"lines": {k: [l + "-g2" for l in v] for k, v in lines.items()}, "rc": p2.returncode,
                             "live": p2.stderr.decode(errors="replace") + p2.stdout.decode(errors="replace"),
                             "replay": q2.stdout.decode(errors="replace")}
        return out
    finally:
        pp.close()


def special_cases(bindir, r):
    """Two fixed shapes run by the real binaries (live output and replay):
    (a) bytes: a line whose multi-byte character arrives in two writes, and a line with a byte that is not UTF-8;
    (b) spellings: one target reached as `x` and, from a script in a subdirectory, as `../x`, at -j2."""
    out = []
    for shape in ("bytes", "spellings"):
        pp = par.ParProject(bindir, {}, "c18s")
        try:
            env = dict(pp.pr.env)
            for k in ("REDO_LOG", "REDO_PRETTY", "REDO_COLOR"):
                env.pop(k, None)
            if shape == "bytes":
                open(os.path.join(pp.root, "all.do"), "w").write("echo 'L-all-0' >&2\nredo-ifchange x\necho 'L-all-1' >&2\n")
                open(os.path.join(pp.root, "x.do"), "w").write(
                    "printf 'L-x-caf\\303' >&2\nsleep %.2f\nprintf '\\251-end\\n' >&2\nprintf 'L-x-latin-\\351-byte\\n' >&2\necho 'L-x-last' >&2\n" % r.choice([0.3, 0.5]))
                want = {"all": ["L-all-0", "L-all-1"], "x": ["L-x-caf\u00e9-end", "L-x-latin-\ufffd-byte", "L-x-last"]}
                jobs = 1
            else:
                os.mkdir(os.path.join(pp.root, "sub"))
                open(os.path.join(pp.root, "all.do"), "w").write("redo-ifchange x sub/y\n")
                open(os.path.join(pp.root, "x.do"), "w").write("echo 'L-x-0' >&2\nsleep 1.2\necho 'L-x-1' >&2\n")
                open(os.path.join(pp.root, "sub", "y.do"), "w").write("echo 'L-y-0' >&2\nsleep 0.3\nredo-ifchange ../x\necho 'L-y-1' >&2\n")
                want = {"x": ["L-x-0", "L-x-1"], "sub/y": ["L-y-0", "L-y-1"]}
                jobs = 2
            p = subprocess.run(["redo", "--no-pretty", "--no-color", "--no-status", "-j%d" % jobs, "all"], cwd=pp.root, env=env,
                               stdin=subprocess.DEVNULL, stdout=subprocess.PIPE, stderr=subprocess.PIPE, timeout=120, start_new_session=True)
            live = p.stderr.decode(errors="replace") + p.stdout.decode(errors="replace")
            q = subprocess.run(["redo-log", "-r", "--no-pretty", "--no-color", "--no-status", "all"], cwd=pp.root, env=env,
                               stdin=subprocess.DEVNULL, stdout=subprocess.PIPE, stderr=subprocess.PIPE, timeout=120, start_new_session=True)
            replay = q.stdout.decode(errors="replace")
            for which, text, rc in (("live", live, p.returncode), ("replay", replay, q.returncode)):
                attr, _ = attribute(text, list(want))
                everything = [l.rstrip() for ls in attr.values() for l in ls if l.startswith("L-")]
                for nm, lines in want.items():
                    got = [l.rstrip() for l in attr.get(nm, []) if l.startswith("L-")]
                    stray = [l for l in everything if l.startswith("L-%s-" % nm.split("/")[-1])]
                    if got != lines or sorted(stray) != sorted(lines) or rc != 0:
                        out.append({"oracle": "stderr lines once/in order/under the right target", "shape": shape, "stream": which, "target": nm,
                                    "expected": lines, "under_its_target": got, "anywhere": stray, "exit": rc,
                                    "tail": text[-300:]})
                        break
        finally:
            pp.close()
    return out


def check(x):
    bad = []
    gens = [("", x, x["lines"])]
    if x.get("second"):
        gens.append((" (rebuild over existing logs)", x["second"], x["second"]["lines"]))
    for label, src, lines_ in gens:
      for which in ("live", "replay"):
        attr, seq = attribute(src[which], x["names"])
        for nm in x["names"]:
            want = [l.rstrip() for l in lines_[nm]]
            got = [l.rstrip() for l in attr.get(nm, []) if l.startswith("L-")]
            # lines of nm that ended up under another target
            elsewhere = [(o, l) for o, ls in attr.items() if o != nm for l in ls if l.startswith("L-%s-" % nm)]
            if got != want or elsewhere:
                bad.append({"stream": which + label, "target": nm, "expected": [w[:40] for w in want], "got": [g[:40] for g in got],
                            "under_other_targets": [(o, l[:40]) for o, l in elsewhere][:3]})
    return bad


def run(res, r, tier):
    bindir = common.build_redo(True)
    n = 10 if tier == "quick" else 80
    viol = []
    known = 0
    ev = 0
    kn, _ = common.known_findings()
    has_f11 = any(k["property"] == "C18" and k["cls"] == "line_parses_as_record" for k in kn)
    samples = []
    nfrag = 0
    for i in range(n):
        ghost = (i % 5 == 4)
        fragd = (i % 4 == 1)
        x = one_project(bindir, r, r.choice([1, 2, 3, 4]), ghost, fragd)
        nfrag += fragd
        ev += 1
        bad = check(x)
        if x["rc"] != 0:
            bad.append({"what": "build exited %d" % x["rc"]})
        if x["rc_log"] != 0 and not ghost:
            bad.append({"what": "redo-log exited %d: %s" % (x["rc_log"], x["replay_err"])})
        if len(samples) < 2:
            samples.append({"targets": x["names"], "deps": x["deps"], "jobs": x["jobs"], "record_like_line": bool(ghost)})
        if bad:
            if ghost and has_f11:
                known += 1
                res.known("line_parses_as_record", "F11 a stderr line that parses as a structured record (e.g. '@@REDO:do:1:1.0000@@ ghost') is interpreted instead of shown; redo-log may end with status 24 and lose the following lines")
            else:
                for b in bad[:2]:
                    viol.append({"oracle": "stderr lines once/in order/under the right target", "jobs": x["jobs"], "deps": x["deps"], "detail": b})
    sp = special_cases(bindir, r)
    ev += 2
    viol = sp[:2] + viol
    return {"evaluations": ev, "violations": viol, "special_shapes": ["bytes (split multi-byte character, non-UTF-8 byte)", "spellings (x and ../x at -j2)"], "known_hits": known, "samples": samples, "projects_with_a_line_in_3_to_5_fragments": nfrag}
