"""End-to-end serial harness (E): the same history is executed by the real redo
binaries in a scratch project and by the extracted Coq model (Build/Model.v);
exit status, script trace, file contents and an abstraction of the database
are compared after every step.

History text format (shared with ocaml/driver.ml), steps separated by ';':
  W name tok,tok,..            user writes a data file (one decimal token per line)
  D name deps ifc always stamp out payload cat exit     user writes a .do file
  R name                       user removes a file
  C redo|ifchange|ood|targets|sources k0|k1 t1,t2      top-level command
"""
import os
import re
import shutil
import signal
import sqlite3
import subprocess
import tempfile
import time
from concurrent.futures import ThreadPoolExecutor

import common

def _stray_state_dir(d):
    """a .redo in an ancestor of the scratch root would be taken for the base of every
    scratch project (base selection walks up): the checks would then measure
    somebody else's database, not the code"""
    d = os.path.realpath(d)
    while True:
        d2 = os.path.dirname(d)
        if d2 == d:
            return None
        d = d2
        if os.path.isdir(os.path.join(d, ".redo")):
            return os.path.join(d, ".redo")


def _pick_scratch_root():
    cands = [os.environ["VERIF_SCRATCH"]] if os.environ.get("VERIF_SCRATCH") else []
    cands += ["/var/tmp/verif-scratch", "/tmp/verif-scratch", os.path.expanduser("~/.cache/verif-scratch"), "/dev/shm/verif-scratch"]
    for c in cands:
        if _stray_state_dir(os.path.join(c, "x")) is None:
            return c
    raise common.Broken("environment: every candidate scratch root has a .redo directory in an ancestor (%s); remove it"
                        % ", ".join("%s: %s" % (c, _stray_state_dir(os.path.join(c, "x"))) for c in cands))


SCRATCH_ROOT = _pick_scratch_root()
BASE_RUN = 1000000000


# ---------------------------------------------------------------- rendering
def render_do(deps, ifc, always, stamp, out, payload, cat, ex, tol=False):
    L = ['printf \'run:%s:%s:%s:%s\\n\' "$1" "$1" "$2" "$3" >> "$VERIF_TRACE"']
    if deps:
        # tol: the script carries on when its dependencies cannot be built
        L.append("redo-ifchange " + " ".join(deps) + (" || true" if tol else ""))
    if ifc:
        L.append("redo-ifcreate " + " ".join(ifc))
    if always:
        L.append("redo-always")
    if cat and deps:
        L.append("out=$(printf '%%s\\n' %d; cat %s)" % (payload, " ".join(deps)))
    else:
        L.append("out=$(printf '%%s\\n' %d)" % payload)
    if stamp:
        L.append("printf '%s\\n' \"$out\" | redo-stamp")
    emit = {
        "S": ["printf '%s\\n' \"$out\""],
        "3": ["printf '%s\\n' \"$out\" > \"$3\""],
        "N": [":"],
        "B": ["printf '%s\\n' \"$out\"", "printf '%s\\n' \"$out\" > \"$3\""],
        "D": ["printf '%s\\n' \"$out\" > \"$1\""],
    }[out]
    L += emit
    L.append("exit %d" % ex)
    return "\n".join(L) + "\n"


def parse_history(line):
    steps = []
    for s in line.split(";"):
        t = s.split()
        if t:
            steps.append(t)
    return steps


def lst(x):
    return [] if x == "-" else x.split(",")


# ---------------------------------------------------------------- real side
class Project:
    def __init__(self, bindir, tag):
        os.makedirs(SCRATCH_ROOT, exist_ok=True)
        self.dir = tempfile.mkdtemp(prefix="e2e-%s-" % tag, dir=SCRATCH_ROOT)
        self.root = os.path.join(self.dir, "p")
        os.makedirs(os.path.join(self.root, ".redo"))
        self.trace = os.path.join(self.dir, "trace")
        open(self.trace, "w").close()
        self.trace_pos = 0
        self.env = {
            "PATH": bindir + ":/usr/bin:/bin",
            "HOME": self.dir,
            "VERIF_TRACE": self.trace,
            "REDO_LOG": "0",
            "REDO_PRETTY": "0",
            "REDO_COLOR": "0",
            "LC_ALL": "C",
        }
        self.dofiles = set()
        self.last_mtime_ns = 0

    def close(self):
        shutil.rmtree(self.dir, ignore_errors=True)

    def _fresh_mtime(self, path):
        # A-STAMP: every user write gets an mtime not used before (strictly increasing)
        now = time.time_ns()
        if now <= self.last_mtime_ns + 2000000:
            now = self.last_mtime_ns + 2000000
        self.last_mtime_ns = now
        os.utime(path, ns=(now, now))

    def write(self, name, text):
        p = os.path.join(self.root, name)
        tmp = p + ".usertmp"
        with open(tmp, "w") as f:
            f.write(text)
        os.replace(tmp, p)           # new inode, like an editor
        self._fresh_mtime(p)

    def remove(self, name):
        try:
            os.unlink(os.path.join(self.root, name))
        except FileNotFoundError:
            pass

    def run_cmd(self, argv, timeout=60, cwd=None, extra_env=None):
        env = dict(self.env)
        if extra_env:
            env.update(extra_env)
        p = subprocess.Popen(argv, cwd=cwd or self.root, env=env, stdin=subprocess.DEVNULL,
                             stdout=subprocess.PIPE, stderr=subprocess.PIPE, start_new_session=True)
        hung = False
        try:
            out, err = p.communicate(timeout=timeout)
        except subprocess.TimeoutExpired:
            hung = True
            try:
                os.killpg(p.pid, signal.SIGKILL)
            except ProcessLookupError:
                pass
            out, err = p.communicate()
        # make sure nothing of the process group survives
        try:
            os.killpg(p.pid, signal.SIGKILL)
        except (ProcessLookupError, PermissionError):
            pass
        with open(self.trace) as f:
            f.seek(self.trace_pos)
            new = f.read()
            self.trace_pos = f.tell()
        trace = [l for l in new.split("\n") if l]
        return (124 if hung else p.returncode), out.decode(errors="replace"), err.decode(errors="replace"), trace

    def step(self, t):
        """Execute one parsed step; returns a result string like the model's."""
        if t[0] == "W":
            self.write(t[1], "".join("%s\n" % x for x in lst(t[2])))
            return "edit", None
        if t[0] == "D":
            self.write(t[1], render_do(lst(t[2]), lst(t[3]), t[4] == "1", t[5] == "1", t[6], int(t[7]), t[8] == "1", int(t[9]), len(t) > 10 and t[10] == "1"))
            self.dofiles.add(t[1])
            return "edit", None
        if t[0] == "R":
            self.remove(t[1])
            self.dofiles.discard(t[1])
            return "edit", None
        if t[0] == "C":
            c, k, ts = t[1], t[2], lst(t[3])
            if c in ("redo", "ifchange"):
                argv = ["redo" if c == "redo" else "redo-ifchange"]
                extra = {"REDO_KEEP_GOING": "1"} if k == "k1" else None
                if c == "redo" and k == "k1":
                    argv.append("-k")
                rc, out, err, trace = self.run_cmd(argv + ts, extra_env=extra)
                recs = parse_records(err)
                return "rc=%d" % rc, {"trace": trace, "err": err, "records": recs}
            rc, out, err, trace = self.run_cmd(["redo-" + c])
            if rc != 0:
                return "err=%d" % rc, {"err": err}
            return "list=" + ",".join(l for l in out.split("\n") if l), {"err": err}
        raise ValueError(t)

    def digest(self):
        files = []
        for n in sorted(os.listdir(self.root)):
            p = os.path.join(self.root, n)
            if n == ".redo" or n in self.dofiles or not os.path.isfile(p):
                continue
            with open(p) as f:
                toks = [l for l in f.read().split("\n") if l]
            files.append("%s=%s" % (n, ".".join(toks)))
        rows, deps = dump_db(self.root)
        return "files=" + "|".join(files) + " rows=" + "|".join(rows) + " deps=" + "|".join(deps)


REC = re.compile(r"^@@REDO:([^:@]*):(\d+):([0-9.]+)@@ (.*)$")


def parse_records(err):
    out = []
    for l in err.split("\n"):
        m = REC.match(l)
        if m:
            out.append((m.group(1), m.group(4)))
    return out


def disk_stamp(root, name):
    """(mtime formatted as redo does, size) or None"""
    try:
        st = os.lstat(os.path.join(root, name))
    except FileNotFoundError:
        return None
    return st


def dump_db(root):
    dbf = os.path.join(root, ".redo", "db.sqlite3")
    if not os.path.exists(dbf):
        return ["//ALWAYS:0:0:-:-:-:N:-"], []
    c = sqlite3.connect("file:%s?mode=ro" % dbf, uri=True, timeout=30)
    try:
        rows = c.execute("select rowid,name,is_generated,is_override,checked_runid,changed_runid,failed_runid,stamp,csum from Files").fetchall()
        deps = c.execute("select target,source,mode,delete_me from Deps").fetchall()
    finally:
        c.close()
    names = {r[0]: r[1] for r in rows}

    def rr(x):
        return "-" if x is None else str(x - BASE_RUN)
    out = []
    for (rid, name, gen, ovr, chk, chg, fl, stamp, csum) in rows:
        st = disk_stamp(root, name)
        if stamp is None:
            s = "N"
        elif stamp == "0":
            s = "M" if st is None else "m"
        else:
            if st is None:
                s = "D"
            else:
                cur = "%.6f-%d-%d-%d-%d-%d" % (st.st_mtime_ns / 1e9, st.st_size, st.st_ino, st.st_mode, st.st_uid, st.st_gid)
                # compare on the fields redo itself compares, tolerant to float formatting: use mtime µs and size+ino
                s = "E" if stamp_equal(stamp, st) else "D"
        out.append("%s:%d:%d:%s:%s:%s:%s:%s" % (name, 1 if gen else 0, 1 if ovr else 0, rr(chk), rr(chg), rr(fl), s, "c" if csum else "-"))
    dd = ["%s>%s:%s:%d" % (names.get(t, "?%s" % t), names.get(s, "?%s" % s), m, 1 if d else 0) for (t, s, m, d) in deps]
    return sorted(out), sorted(dd)


def stamp_equal(stamp, st):
    parts = stamp.split("-")
    if len(parts) < 6:
        return False
    try:
        mt = float(parts[0])
    except ValueError:
        return False
    return abs(mt - st.st_mtime_ns / 1e9) < 2e-6 and parts[1] == str(st.st_size) and parts[2] == str(st.st_ino)


def canon_events(res):
    """Order-preserving run trace + multiset of selected records, from the real run."""
    evs = list(res["trace"])
    extra = []
    for kind, text in res["records"]:
        if kind == "unchanged":
            extra.append("unch:" + text)
        elif kind == "check":
            extra.append("check:" + text)
        elif kind == "warning" and text.endswith("you modified it; skipping"):
            extra.append("ovr:" + text.split(" - ")[0])
        elif kind == "error" and text.startswith("no rule to redo"):
            extra.append("norule:" + text.split('"')[1])
        elif kind == "error" and re.match(r"target (\S+) failed$", text):
            extra.append("failed32:" + text.split()[1])
    # the override warning may be printed more than once for one file (the dependency
    # rows are loaded before the walk, so a second visit does not see the first one's
    # mark); its multiplicity is not part of any property
    extra = [e for e in extra if not e.startswith("ovr:")] + sorted(set(e for e in extra if e.startswith("ovr:")))
    return evs, sorted(extra)


def split_model_events(s):
    """model 'ev=...' -> (run trace list, sorted others)"""
    evs = [e for e in s.split(",") if e]
    runs = [e for e in evs if e.startswith("run:")]
    others = [e for e in evs if not e.startswith("run:")]
    others = sorted([e for e in others if not e.startswith("ovr:")] + list(set(e for e in others if e.startswith("ovr:"))))
    return runs, others


def run_real(bindir, line, tag="h"):
    """Returns list of (result, digest, detail) per step."""
    pr = Project(bindir, tag)
    out = []
    try:
        for t in parse_history(line):
            if t[0] in ("P", "H"):
                continue
            r, detail = pr.step(t)
            out.append((r, pr.digest(), detail))
    finally:
        pr.close()
    return out


def run_model(lines):
    exe = common.build_model()
    p = subprocess.run([exe, "hist"], input=("\n".join(lines) + "\n").encode(), stdout=subprocess.PIPE, stderr=subprocess.PIPE, timeout=1800)
    outs = p.stdout.decode().split("\n")
    if outs and outs[-1] == "":
        outs.pop()
    if len(outs) != len(lines):
        raise common.Broken("model driver returned %d lines for %d histories" % (len(outs), len(lines)), p.stderr.decode()[-2000:])
    res = []
    for o in outs:
        steps = []
        for s in o.split(" ;; "):
            m = re.match(r"^(\S+)(?: (ev=\S*))? ?(files=.*)$", s)
            if not m:
                steps.append((s, "", ""))
                continue
            steps.append((m.group(1), m.group(2) or "", m.group(3)))
        res.append(steps)
    return res


def compare(line, real, model):
    """First disagreement between the real run and the model, or None."""
    steps = [t for t in parse_history(line) if t[0] not in ("P", "H")]
    if len(real) != len(model):
        return {"step": -1, "what": "length", "real": len(real), "model": len(model)}
    for i, ((rr, rd, det), (mr, mev, md)) in enumerate(zip(real, model)):
        if rr != mr:
            return {"step": i, "cmd": " ".join(steps[i]), "what": "result", "real": rr, "model": mr,
                    "stderr": (det or {}).get("err", "")[-1500:]}
        if det and "trace" in det:
            evs, extra = canon_events(det)
            mruns, mothers = split_model_events(mev[3:] if mev.startswith("ev=") else "")
            if evs != mruns:
                return {"step": i, "cmd": " ".join(steps[i]), "what": "script trace", "real": evs, "model": mruns,
                        "stderr": det.get("err", "")[-1500:]}
            if extra != mothers:
                return {"step": i, "cmd": " ".join(steps[i]), "what": "records", "real": extra, "model": mothers,
                        "stderr": det.get("err", "")[-1500:]}
        if rd != md:
            return {"step": i, "cmd": " ".join(steps[i]), "what": "state", "real": rd, "model": md,
                    "diff": state_diff(rd, md)}
    return None


def state_diff(a, b):
    def parts(s):
        d = {}
        for sec in s.split(" "):
            if "=" in sec:
                k, v = sec.split("=", 1)
                d[k] = set(v.split("|")) if v else set()
        return d
    pa, pb = parts(a), parts(b)
    out = {}
    for k in set(pa) | set(pb):
        ra, rb = pa.get(k, set()), pb.get(k, set())
        if ra != rb:
            out[k] = {"only_real": sorted(ra - rb), "only_model": sorted(rb - ra)}
    return out


def project_depth():
    """number of directories above a scratch project directory"""
    return len([c for c in os.path.join(os.path.realpath(SCRATCH_ROOT), "e2e-x", "p").split("/") if c])


def hint_names(detail):
    """names in the order the implementation first mentioned them in its log records"""
    out = []
    for kind, text in (detail or {}).get("records", []):
        n = None
        if kind in ("do", "unchanged", "check"):
            n = text
        elif kind == "error":
            m = re.match(r"target (\S+) failed$", text)
            if m:
                n = m.group(1)
        elif kind == "warning":
            # an overridden target handled out of band leaves only this record
            m = re.match(r"(\S+) - you modified it; skipping$", text)
            if m:
                n = m.group(1)
        if n and n not in out and " " not in n:
            out.append(n)
    return out


def with_hints(line, real):
    """Insert before every build command the out-of-band order observed in the real run."""
    steps = [t for t in parse_history(line)]
    out = []
    k = 0
    for t in steps:
        if t[0] == "P":
            out.append(" ".join(t))
            continue
        if t[0] == "H":
            continue
        if t[0] == "C" and t[1] in ("redo", "ifchange") and k < len(real):
            h = hint_names(real[k][2])
            if h:
                out.append("H " + ",".join(h))
        out.append(" ".join(t))
        k += 1
    return " ; ".join(out)


def run_all(bindir, lines, workers=None):
    """Run every history on both sides; returns (reals, models).  The real
    runs go first: the order in which out-of-band targets were built (a
    HashSet order in the code) is observed and given to the model as hints."""
    lines = [l if l.startswith("P ") else "P %d ; %s" % (project_depth(), l) for l in lines]
    workers = workers or common.NCPU
    with ThreadPoolExecutor(max_workers=workers) as ex:
        reals = list(ex.map(lambda il: run_real(bindir, il[1], "h%d" % il[0]), enumerate(lines)))
    models = run_model([with_hints(l, r) for l, r in zip(lines, reals)])
    return reals, models
