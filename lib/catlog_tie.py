"""Correspondence check for LogRec/Catlog.v: the static replay `redo-log -r [-u]`.

Random projects (sub-directories, silent scripts, failing leaves tolerated by
their parent, unterminated last lines, lines that look like records, targets
asked for twice, a second build after an edit so that logs hold `unchanged`
records) are built by the real binaries; the log files and the names redo
knows are read back from .redo, and the same logs go through the extracted
model.  The bytes `redo-log` prints must equal the bytes the model renders,
the pid and time stamp of every record normalised on both sides."""
import os
import re
import sqlite3
import subprocess
import common
import e2e

RECB = re.compile(rb"@@REDO:([^:@\n]*):(-?\d+):([0-9.]+)@@ ")


def norm(b):
    return RECB.sub(lambda m: b"@@REDO:" + m.group(1) + b":0:0.0000@@ ", b)


def hx(b):
    return b.hex() if b else "-"


def gen_project(r):
    n = r.randint(3, 7)
    names = []
    for i in range(n):
        # (a name may end in white space: the record that names it must come through the viewer unchanged)
        names.append(("sub/" if r.random() < 0.3 else "") + "n%d" % i + (r.choice([" ", "\t"]) if r.random() < 0.08 else ""))
    deps, lines, kind, mid = {}, {}, {}, {}
    for i, nm in enumerate(names):
        deps[nm] = r.sample(names[:i], min(i, r.choice([0, 1, 2, 2])))
        if deps[nm] and r.random() < 0.2:
            deps[nm].append(r.choice(deps[nm]))          # the same dependency asked for twice
        k = 0 if r.random() < 0.3 else r.randint(1, 4)
        # some lines are indented, some end in blanks, some both (clean_line trims the END only)
        lines[nm] = ["%sL-%s-%d%s" % ("    " if r.random() < 0.2 else "", tagof(nm), q, "   " if r.random() < 0.25 else "")
                     for q in range(k)]
        kind[nm] = r.choice(["plain"] * 5 + ["fail", "partial", "partial_only"])
        # text left in mid-line before asking for a dependency: the record of the nested
        # command then stands after it on the same physical line (F64)
        mid[nm] = [j for j in range(len(deps[nm])) if r.random() < 0.3]
    if r.random() < 0.3:
        kind[r.choice(names)] = r.choice(["recordlike", "ghostdo", "baddone"])
    root = names[-1]
    for nm in names[:-1]:
        if not any(nm in deps[x] for x in names):
            deps[root].append(nm)
    if kind[root] == "fail":
        kind[root] = "plain"
    return names, deps, lines, kind, root, mid


def tagof(nm):
    return nm.replace("/", "_").strip()


def relto(frm, to):
    d = os.path.dirname(frm)
    return os.path.relpath(to, d) if d else to


def script(nm, deps, lines, kind, src, mid=()):
    L = []
    half = len(lines) // 2
    for l in lines[:half]:
        L.append("echo '%s' >&2" % l)
    L.append("redo-ifchange '%s'" % relto(nm, src))
    for j, d in enumerate(deps):
        if j in mid:
            L.append("printf 'M-%s-%d ' >&2" % (tagof(nm), j))
        L.append("redo-ifchange '%s' || true" % relto(nm, d))
        if j in mid:
            L.append("echo '' >&2")      # ends the line if the nested command wrote nothing
    for l in lines[half:]:
        L.append("echo '%s' >&2" % l)
    if kind == "recordlike":
        L.append("echo '@@REDO:warning:7:1.5000@@ made up by %s' >&2" % tagof(nm))
    if kind == "ghostdo":
        L.append("echo '@@REDO:do:1:1.0000@@ ghost' >&2")        # names a target redo does not know
    if kind == "baddone":
        L.append("echo '@@REDO:done:1:1.0@@ zzz' >&2")            # a done record without a status
    if kind in ("partial", "partial_only"):
        L.append("printf 'tail-%s' >&2" % tagof(nm))
    if kind == "fail":
        L.append("exit 3")
    L.append("echo out-%s" % tagof(nm))
    return "\n".join(L) + "\n"


def read_state(root):
    db = sqlite3.connect(os.path.join(root, ".redo", "db.sqlite3"))
    rows = list(db.execute("select rowid, name from Files"))
    db.close()
    ent = {}
    for fid, name in rows:
        p = os.path.join(root, ".redo", "log.%d" % fid)
        ent[name] = open(p, "rb").read() if os.path.exists(p) else None
    return ent


def one(bindir, r, idx):
    names, deps, lines, kind, root, mid = gen_project(r)
    pr = e2e.Project(bindir, "catlog")
    try:
        os.makedirs(os.path.join(pr.root, "sub"), exist_ok=True)
        with open(os.path.join(pr.root, "src"), "w") as f:
            f.write("1\n")
        for nm in names:
            ls = [] if kind[nm] == "partial_only" else lines[nm]
            with open(os.path.join(pr.root, nm + ".do"), "w") as f:
                f.write(script(nm, deps[nm], ls, kind[nm], "src", mid[nm]))
        env = dict(pr.env)
        for k in ("REDO_LOG", "REDO_PRETTY", "REDO_COLOR"):
            env.pop(k, None)

        def sh(argv):
            return subprocess.run(argv, cwd=pr.root, env=env, stdin=subprocess.DEVNULL, stdout=subprocess.PIPE, stderr=subprocess.PIPE, timeout=120)
        sh(["redo", "--no-pretty", "--no-color", "--no-status", "-j%d" % r.choice([1, 1, 2, 3]), root])
        second = r.random() < 0.6
        vict = []
        if second:
            # rebuild a few inner targets: their new logs name clean dependencies as `unchanged`
            vict = r.sample(names, min(len(names), r.randint(1, 2)))
            sh(["redo", "--no-pretty", "--no-color", "--no-status"] + vict)
        ent = read_state(pr.root)
        queries = []
        for u in (False, True):
            roots = [root]
            if r.random() < 0.3:
                roots = r.sample(names, 2)
            if u and vict and r.random() < 0.6:
                # a rebuilt target first: its clean dependencies are met as `unchanged` records before anything else shows them
                roots = [vict[0]] + [x for x in roots if x != vict[0]][:1]
            if r.random() < 0.15:
                roots = ["./" + roots[0]] + roots[1:]
            q = sh(["redo-log", "-r", "--no-pretty", "--no-color", "--no-status"] + (["-u"] if u else []) + roots)
            queries.append({"u": u, "roots": roots, "rc": q.returncode, "out": q.stdout, "err": q.stderr.decode(errors="replace")[-300:]})
        return {"names": names, "deps": deps, "kind": kind, "lines": lines, "mid": mid, "second_build": second, "entries": ent, "queries": queries}
    finally:
        pr.close()


def property_oracle(p, q):
    """C18 on the real replay, independent of the model: every plain line of a
    script stands, once and in order, under a header naming its target."""
    import e2e_c18
    if any(k in ("recordlike", "ghostdo", "baddone") for k in p["kind"].values()):
        return None
    attr, _ = e2e_c18.attribute(q["out"].decode(errors="replace"), p["names"])
    bad = []
    for nm in p["names"]:
        tag = tagof(nm)
        want = [] if p["kind"][nm] == "partial_only" else [l.rstrip() for l in p["lines"][nm]]
        half = len(want) // 2
        want = want[:half] + ["M-%s-%d" % (tag, j) for j in p["mid"][nm]] + want[half:]
        if p["kind"][nm] in ("partial", "partial_only"):
            want = want + ["tail-" + tag]
        mine = lambda l: l.strip().startswith("L-%s-" % tag) or l == "tail-" + tag or l.startswith("M-%s-" % tag)
        got = []
        for key, ls in attr.items():
            k = None if key is None else os.path.normpath(key)
            for l in ls:
                if mine(l.rstrip()):
                    if k != nm:
                        bad.append({"line": l[:60], "of": nm, "shown_under": key})
                    else:
                        got.append(l.rstrip())
        if got and got != want:
            bad.append({"target": nm, "expected": want, "got": got})
    return bad


def model_eval(cases):
    """cases: list of (u, roots, entries) -> list of (status, bytes)"""
    exe = common.build_model()
    inp = []
    for u, roots, ent in cases:
        parts = ["1" if u else "0", ",".join(hx(x.encode()) for x in roots)]
        for name, content in ent.items():
            parts.append("%s=%s" % (hx(name.encode()), "-" if content is None else "L" + content.hex()))
        inp.append(" ".join(parts))
    p = subprocess.run([exe, "catlog"], input=("\n".join(inp) + "\n").encode(), stdout=subprocess.PIPE, timeout=600)
    out = []
    for l in p.stdout.decode().split("\n"):
        if not l:
            continue
        st, _, h = l.partition(" ")
        out.append((st, b"" if h in ("-", "") else bytes.fromhex(h)))
    return out


def run(bindir, r, n):
    projects = [one(bindir, r, i) for i in range(n)]
    cases, where = [], []
    for pi, p in enumerate(projects):
        for q in p["queries"]:
            cases.append((q["u"], q["roots"], p["entries"]))
            where.append((pi, q))
    res = model_eval(cases)
    dis = []
    oracle_bad = []
    oracle_checked = 0
    dist = {"queries": len(cases), "with_u": 0, "two_roots": 0, "second_build": sum(1 for p in projects if p["second_build"]),
            "unchanged_records": 0, "tails": 0, "text_then_record_lines": 0, "recordlike": 0, "failing": 0, "subdir_targets": 0, "model_status": {}}
    nontrivial = set()
    for (pi, q), (st, mb) in zip(where, res):
        p = projects[pi]
        dist["with_u"] += q["u"]
        dist["two_roots"] += len(q["roots"]) > 1
        dist["model_status"][st] = dist["model_status"].get(st, 0) + 1
        real = norm(q["out"])
        want_rc = {"ok": 0, "exit24": 24, "panic": 101}.get(st)
        if norm(mb) != real or (want_rc is not None and q["rc"] != want_rc) or st == "fuel":
            dis.append({"roots": q["roots"], "u": q["u"], "model_status": st, "real_rc": q["rc"], "real_err": q["err"],
                        "real": real.decode(errors="replace")[-1500:], "model": norm(mb).decode(errors="replace")[-1500:],
                        "deps": p["deps"], "kind": p["kind"]})
        if real.count(b"@@REDO:do:") >= 2:
            nontrivial.add(real)
        if q["rc"] != 0 and not any(k in ("recordlike", "ghostdo", "baddone") for k in p["kind"].values()):
            oracle_checked += 1
            oracle_bad.append({"oracle": "redo-log -r must replay the log of a finished build (no script printed anything that looks like a record)",
                               "roots": q["roots"], "u": q["u"], "deps": p["deps"], "kind": p["kind"],
                               "detail": {"exit_status": q["rc"], "stderr": q["err"]}, "output": real.decode(errors="replace")[-1200:]})
        if q["rc"] == 0:
            ob = property_oracle(p, q)
            if ob is not None:
                oracle_checked += 1
                for b in ob[:2]:
                    oracle_bad.append({"oracle": "replay: plain lines once, in order, under their own target", "roots": q["roots"], "u": q["u"],
                                       "deps": p["deps"], "kind": p["kind"], "detail": b, "output": real.decode(errors="replace")[-1200:]})
    for p in projects:
        for c in p["entries"].values():
            if c:
                dist["unchanged_records"] += c.count(b"@@REDO:unchanged:")
                dist["tails"] += (not c.endswith(b"\n"))
                dist["text_then_record_lines"] += sum(1 for l in c.split(b"\n") if b"@@REDO:" in l and not l.startswith(b"@@REDO:"))
        dist["recordlike"] += sum(1 for k in p["kind"].values() if k in ("recordlike", "ghostdo", "baddone"))
        dist["failing"] += sum(1 for k in p["kind"].values() if k == "fail")
        dist["subdir_targets"] += sum(1 for nm in p["names"] if "/" in nm)
    sample = None
    if where:
        (pi, q), (st, mb) = where[0], res[0]
        sample = {"roots": q["roots"], "u": q["u"], "model_status": st, "output": norm(q["out"]).decode(errors="replace")[:600]}
    return {"evaluations": len(cases), "distinct_nontrivial": len(nontrivial), "disagreements": dis, "oracle_failures": oracle_bad,
            "oracle_checked": oracle_checked, "distribution": dist, "sample": sample}


if __name__ == "__main__":
    import json
    import sys
    r = common.rng("catlog-cli")
    out = run(common.build_redo(True), r, int(sys.argv[1]) if len(sys.argv) > 1 else 10)
    print(json.dumps({k: v for k, v in out.items() if k not in ("disagreements", "oracle_failures")}, indent=1)[:3000])
    print("DISAGREEMENTS", len(out["disagreements"]), "ORACLE", len(out["oracle_failures"]), "of", out["oracle_checked"])
    for d in out["oracle_failures"][:3]:
        print(json.dumps(d, indent=1))
    for d in out["disagreements"][:3]:
        print(json.dumps({k: v for k, v in d.items() if k not in ("real", "model")}, indent=1))
        print("--- real\n" + d["real"] + "\n--- model\n" + d["model"])
