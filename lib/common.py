"""Shared machinery for the /verif checks: building the Coq development, the
extracted model, the redo binaries and the harness; auditing proofs; writing
evidence; reporting violations / known findings."""
import fcntl
import hashlib
import json
import os
import random
import re
import shutil
import signal
import subprocess
import sys
import time

VERIF = os.path.dirname(os.path.dirname(os.path.abspath(__file__)))
REPO = os.environ.get("VERIF_REPO", "/repo")
CACHE = os.path.join(VERIF, ".cache")
COQ = os.path.join(VERIF, "coq")
TARGET = os.path.join(CACHE, "target")
OCAML_DIR = os.path.join(CACHE, "ocaml")
EVIDENCE = os.path.join(VERIF, "evidence")
REPLAYS = os.path.join(VERIF, "replays")
NCPU = os.cpu_count() or 4

ENV = dict(os.environ)
ENV.update({"CARGO_NET_OFFLINE": "true", "LC_ALL": "C"})

FORBIDDEN = re.compile(
    r"\b(Admitted|admit|Axiom|Axioms|Parameter|Parameters|Conjecture|Conjectures|"
    r"Unset\s+Guard|bypass_check|type-in-type|impredicative-set|Admit\s+Obligations|"
    r"Unset\s+Positivity|Unset\s+Universe)\b")


class Broken(Exception):
    """A proof obligation or tie no longer checks."""

    def __init__(self, what, detail=""):
        super().__init__(what)
        self.what = what
        self.detail = detail


def log(*a):
    print(*a, file=sys.stderr, flush=True)


def seed():
    try:
        return int(os.environ.get("VERIF_SEED", "1"))
    except ValueError:
        return 1


def tier(default="quick"):
    t = os.environ.get("VERIF_TIER", default)
    return t if t in ("quick", "thorough") else default


class Lock:
    def __init__(self, name):
        os.makedirs(CACHE, exist_ok=True)
        self.path = os.path.join(CACHE, name + ".lock")

    def __enter__(self):
        self.f = open(self.path, "w")
        fcntl.flock(self.f, fcntl.LOCK_EX)
        return self

    def __exit__(self, *a):
        fcntl.flock(self.f, fcntl.LOCK_UN)
        self.f.close()


def run(cmd, timeout=600, cwd=None, env=None, input=None, check=False):
    """Run a command in its own session; kill the whole group on timeout."""
    p = subprocess.Popen(cmd, cwd=cwd, env=env or ENV, stdin=subprocess.PIPE if input is not None else subprocess.DEVNULL,
                         stdout=subprocess.PIPE, stderr=subprocess.PIPE, start_new_session=True)
    try:
        out, err = p.communicate(input=input, timeout=timeout)
    except subprocess.TimeoutExpired:
        try:
            os.killpg(p.pid, signal.SIGKILL)
        except ProcessLookupError:
            pass
        out, err = p.communicate()
        return 124, out, err
    if check and p.returncode != 0:
        raise RuntimeError("command failed: %r\n%s\n%s" % (cmd, out.decode(errors="replace")[-2000:], err.decode(errors="replace")[-4000:]))
    return p.returncode, out, err


# --------------------------------------------------------------------------
# Coq

def coq_sources():
    out = []
    for root, _, files in os.walk(COQ):
        for f in files:
            if f.endswith(".v"):
                out.append(os.path.join(root, f))
    return sorted(out)


def audit_sources():
    """No Admitted/Axiom/... anywhere in the development (comments stripped)."""
    bad = []
    for p in coq_sources():
        s = open(p).read()
        s = strip_comments(s)
        for m in FORBIDDEN.finditer(s):
            line = s.count("\n", 0, m.start()) + 1
            bad.append("%s:%d: %s" % (os.path.relpath(p, VERIF), line, m.group(0)))
    # Variable/Hypothesis outside a section
    for p in coq_sources():
        s = strip_comments(open(p).read())
        depth = 0
        for ln, line in enumerate(s.split("\n"), 1):
            t = line.strip()
            if re.match(r"(Section|Module)\s+\w+", t) and not re.match(r"Module\s+(Import|Export)\b", t):
                depth += 1
            elif re.match(r"End\s+\w+\s*\.", t):
                depth = max(0, depth - 1)
            elif depth == 0 and re.match(r"(Variable|Variables|Hypothesis|Hypotheses|Context)\b", t):
                bad.append("%s:%d: %s outside a section" % (os.path.relpath(p, VERIF), ln, t.split()[0]))
    return bad


def strip_comments(s):
    out = []
    i = 0
    depth = 0
    n = len(s)
    instr = False
    while i < n:
        if depth == 0 and s[i] == '"':
            instr = not instr
            out.append(s[i]); i += 1; continue
        if not instr and s.startswith("(*", i):
            depth += 1; i += 2; continue
        if not instr and depth > 0 and s.startswith("*)", i):
            depth -= 1; i += 2; continue
        if depth == 0:
            out.append(s[i])
        elif s[i] == "\n":
            out.append("\n")
        i += 1
    return "".join(out)


def build_coq(prop=None):
    """Full .vo build through coq_makefile (incremental).  With [prop], only
    the files props/<prop>.v depends on are built, so that a proof broken by a
    source change in one area does not take the other properties down."""
    with Lock("coq"):
        t0 = time.time()
        rc, out, err = run(["coq_makefile", "-f", "_CoqProject", "-o", "Makefile"], cwd=COQ, timeout=120)
        if rc != 0:
            raise Broken("coq_makefile failed", err.decode(errors="replace"))
        targets = []
        if prop:
            rc, out, err = run(["coqdep", "-Q", "theories", "Redo", "-Q", "props", "RedoProps", "-sort", os.path.join("props", prop + ".v")], cwd=COQ, timeout=60)
            files = [f for f in out.decode().split() if f.startswith("theories/")]
            targets = [re.sub(r"\.v$", ".vo", f) for f in files]
        if not prop or "theories/Anchors.v" in files:
            # the part of the model that is TRANSLATED from the current source
            # (constants, transaction sites, the order of steps the protocol
            # models assume): regenerated on every run
            rc, out, err = run([os.path.join(VERIF, "tools", "anchors.py")], timeout=60)
            if rc != 0:
                raise Broken("tools/anchors.py cannot translate the current source", err.decode(errors="replace"))
        rc, out, err = run(["make", "-j%d" % NCPU] + targets, cwd=COQ, timeout=3000)
        if rc != 0:
            text = (out + err).decode(errors="replace")
            m = re.search(r'File "([^"]+)", line (\d+)', text)
            where = "%s:%s" % (m.group(1), m.group(2)) if m else "?"
            raise Broken("Coq build failed at %s" % where, text[-3000:])
        return time.time() - t0


def build_coq_models():
    """Compile only what extract/Extract.v needs (the model files, no proofs),
    so that the executable model still runs when a proof is broken."""
    with Lock("coq"):
        rc, out, err = run(["coq_makefile", "-f", "_CoqProject", "-o", "Makefile"], cwd=COQ, timeout=120)
        rc, out, err = run(["coqdep", "-Q", "theories", "Redo", "-sort", "extract/Extract.v"], cwd=COQ, timeout=60)
        files = [f for f in out.decode().split() if f.startswith("theories/") and (f.endswith(".v") or f.endswith(".vo"))]
        targets = [re.sub(r"\.v$", ".vo", f) for f in files]
        rc, out, err = run(["make", "-j%d" % NCPU] + targets, cwd=COQ, timeout=3000)
        if rc != 0:
            text = (out + err).decode(errors="replace")
            m = re.search(r'File "([^"]+)", line (\d+)', text)
            raise Broken("Coq build of the model files failed at %s" % ("%s:%s" % (m.group(1), m.group(2)) if m else "?"), text[-3000:])


def check_props(prop):
    """Compile props/<prop>.v (always, never cached), return
    (theorem names, assumptions per theorem)."""
    src = os.path.join(COQ, "props", prop + ".v")
    with Lock("coq"):
        rc, out, err = run(["coqc", "-Q", "theories", "Redo", "-Q", "props", "RedoProps",
                            "-w", "-notation-overridden,-deprecated-hint-without-locality",
                            src], cwd=COQ, timeout=900)
    text = out.decode(errors="replace")
    if rc != 0:
        etext = err.decode(errors="replace")
        m = re.search(r'line (\d+)', etext)
        raise Broken("props/%s.v does not check (line %s)" % (prop, m.group(1) if m else "?"), etext[-3000:])
    s = strip_comments(open(src).read())
    thms = re.findall(r"^\s*Theorem\s+(\w+)", s, re.M)
    asked = re.findall(r"Print Assumptions\s+(\w+)", s)
    missing = [t for t in thms if t not in asked]
    if missing:
        raise Broken("props/%s.v: no Print Assumptions for %s" % (prop, missing))
    # parse the outputs in order
    blocks = re.split(r"(?m)^(?=Closed under the global context|Axioms:|Section Variables:)", text)
    blocks = [b for b in blocks if b.startswith(("Closed", "Axioms", "Section"))]
    if len(blocks) != len(asked):
        raise Broken("props/%s.v: %d Print Assumptions outputs for %d requests" % (prop, len(blocks), len(asked)), text[-2000:])
    assumptions = {}
    for name, b in zip(asked, blocks):
        if b.startswith("Closed under the global context"):
            assumptions[name] = []
        else:
            ax = re.findall(r"^(\S+)\s*:", b, re.M)
            assumptions[name] = [a for a in ax if a not in ("Axioms", "Section")]
    return thms, assumptions


ALLOWED_AXIOMS = set()   # every property theorem is expected to be closed


def coq_closure(prop):
    """The .v files props/<prop>.v depends on (transitively), via coqdep."""
    src = os.path.join("props", prop + ".v")
    rc, out, err = run(["coqdep", "-Q", "theories", "Redo", "-Q", "props", "RedoProps", "-sort", src], cwd=COQ, timeout=60)
    files = [f for f in out.decode().split() if f.endswith(".v") or f.endswith(".vo")]
    files = [re.sub(r"\.vo$", ".v", f) for f in files]
    return [f for f in files if os.path.exists(os.path.join(COQ, f))]


def count_obligations(files):
    n = 0
    names = []
    for f in files:
        s = strip_comments(open(os.path.join(COQ, f)).read())
        for m in re.finditer(r"^\s*(Theorem|Lemma|Corollary|Example|Fact|Remark|Proposition)\s+(\w+)", s, re.M):
            n += 1
            names.append(m.group(2))
    return n, names


def prove(prop):
    """Build, audit, check the property file. Returns a dict for the evidence."""
    t0 = time.time()
    bad = audit_sources()
    if bad:
        raise Broken("forbidden construct in the Coq development", "\n".join(bad))
    build_coq(prop)
    thms, assumptions = check_props(prop)
    for t, ax in assumptions.items():
        extra = [a for a in ax if a not in ALLOWED_AXIOMS]
        if extra:
            raise Broken("theorem %s depends on axioms %s" % (t, extra))
    files = coq_closure(prop)
    n, names = count_obligations(files)
    return {
        "obligations": n,
        "discharged": n,
        "property_theorems": thms,
        "assumptions": assumptions,
        "files": files,
        "checker_cmd": "coq_makefile -f _CoqProject -o Makefile && make (coqc 8.16.1, full .vo) ; coqc props/%s.v ; Print Assumptions for every property theorem" % prop,
        "proof_wall_s": round(time.time() - t0, 1),
    }


def coqchk(prop):
    rc, out, err = run(["coqchk", "-silent", "-o", "-Q", "theories", "Redo", "-Q", "props", "RedoProps", "RedoProps." + prop], cwd=COQ, timeout=3000)
    text = (out + err).decode(errors="replace")
    if rc != 0:
        raise Broken("coqchk rejected RedoProps.%s" % prop, text[-3000:])
    m = re.search(r"\* Axioms:\s*(.*?)(?:\n\s*\*|\Z)", text, re.S)
    return (m.group(1).strip() if m else text[-500:])


# --------------------------------------------------------------------------
# extracted model

def build_model():
    """Extract to OCaml and build the driver (cached on source hash)."""
    with Lock("ocaml"):
        os.makedirs(OCAML_DIR, exist_ok=True)
        h = hashlib.sha256()
        for p in coq_sources() + [os.path.join(VERIF, "ocaml", "driver.ml")]:
            if "/props/" in p:
                continue
            h.update(open(p, "rb").read())
        key = h.hexdigest()
        stamp = os.path.join(OCAML_DIR, "stamp")
        exe = os.path.join(OCAML_DIR, "model_driver")
        if os.path.exists(stamp) and open(stamp).read() == key and os.path.exists(exe):
            return exe
        build_coq_models()
        rc, out, err = run(["coqc", "-Q", os.path.join(COQ, "theories"), "Redo", os.path.join(COQ, "extract", "Extract.v")], cwd=OCAML_DIR, timeout=600)
        if rc != 0:
            raise Broken("extraction failed", err.decode(errors="replace")[-3000:])
        shutil.copy(os.path.join(VERIF, "ocaml", "driver.ml"), OCAML_DIR)
        rc, out, err = run(["ocamlfind", "ocamlopt", "-O2" if False else "-w", "-a", "-package", "str,unix", "-linkpkg", "model.mli", "model.ml", "driver.ml", "-o", "model_driver"], cwd=OCAML_DIR, timeout=600)
        if rc != 0:
            raise Broken("ocaml build of the extracted model failed", (out + err).decode(errors="replace")[-3000:])
        open(stamp, "w").write(key)
        return exe


# --------------------------------------------------------------------------
# the implementation

REDO_NAMES = ["redo", "redo-ifchange", "redo-ifcreate", "redo-always", "redo-stamp", "redo-ood",
              "redo-targets", "redo-sources", "redo-whichdo", "redo-log", "redo-unlocked"]


def build_redo(hooks=True):
    """cargo build of /repo's working tree; returns a bin dir with all redo-* names."""
    with Lock("cargo"):
        sub = "hooks" if hooks else "plain"
        cmd = ["cargo", "build", "--offline", "--manifest-path", os.path.join(REPO, "Cargo.toml"),
               "--target-dir", os.path.join(TARGET, sub)]
        if hooks:
            cmd += ["--features", "verif-hooks"]
        rc, out, err = run(cmd, timeout=1800)
        if rc != 0:
            raise Broken("cargo build of /repo failed", err.decode(errors="replace")[-3000:])
        exe = os.path.join(TARGET, sub, "debug", "redo")
        bindir = os.path.join(CACHE, "bin-" + sub)
        os.makedirs(bindir, exist_ok=True)
        for n in REDO_NAMES:
            p = os.path.join(bindir, n)
            if os.path.islink(p) or os.path.exists(p):
                os.unlink(p)
            os.symlink(exe, p)
        return bindir


def build_harness():
    with Lock("cargo"):
        hdir = os.path.join(VERIF, "harness")
        if REPO != "/repo":
            # examine another tree (VERIF_REPO): same harness sources, dependency path rewritten
            h2 = os.path.join(CACHE, "harness-src")
            shutil.rmtree(h2, ignore_errors=True)
            shutil.copytree(hdir, h2, ignore=shutil.ignore_patterns("target"))
            ct = open(os.path.join(h2, "Cargo.toml")).read().replace('path = "/repo"', 'path = "%s"' % REPO)
            open(os.path.join(h2, "Cargo.toml"), "w").write(ct)
            hdir = h2
        cmd = ["cargo", "build", "--offline", "--manifest-path", os.path.join(hdir, "Cargo.toml"),
               "--target-dir", os.path.join(TARGET, "harness")]
        rc, out, err = run(cmd, timeout=1800)
        if rc != 0:
            raise Broken("cargo build of the harness against %s failed" % REPO, err.decode(errors="replace")[-3000:])
        return os.path.join(TARGET, "harness", "debug")


# --------------------------------------------------------------------------
# line-protocol helpers

def hexs(b):
    if isinstance(b, str):
        b = b.encode()
    return b.hex() if b else "-"


def unhex(s):
    return b"" if s == "-" else bytes.fromhex(s)


def run_lines(exe, lines, timeout=900, shards=None):
    """Feed lines to exe (sharded over cores), return list of output lines."""
    if not lines:
        return []
    shards = shards or min(NCPU, max(1, len(lines) // 2000))
    chunks = [lines[i::shards] for i in range(shards)]
    procs = []
    for ch in chunks:
        p = subprocess.Popen([exe], stdin=subprocess.PIPE, stdout=subprocess.PIPE, stderr=subprocess.DEVNULL, env=ENV)
        procs.append(p)
    import threading
    outs = [None] * shards

    def work(i):
        o, _ = procs[i].communicate(("\n".join(chunks[i]) + "\n").encode(), timeout=timeout)
        outs[i] = o.decode().split("\n")
        if outs[i] and outs[i][-1] == "":
            outs[i].pop()
    ths = [threading.Thread(target=work, args=(i,)) for i in range(shards)]
    for t in ths:
        t.start()
    for t in ths:
        t.join()
    res = [None] * len(lines)
    for i in range(shards):
        if outs[i] is None or len(outs[i]) != len(chunks[i]):
            raise Broken("%s produced %s lines for %d cases" % (os.path.basename(exe), None if outs[i] is None else len(outs[i]), len(chunks[i])))
        for j, o in enumerate(outs[i]):
            res[i + j * shards] = o
    return res


# --------------------------------------------------------------------------
# known findings, verdicts, evidence

def known_findings():
    known, fixed = [], []
    p = os.path.join(VERIF, "KNOWN_FINDINGS")
    if os.path.exists(p):
        for line in open(p):
            line = line.strip()
            if not line or line.startswith("#"):
                continue
            m = re.match(r"known:\s+property=(\S+)\s+class=(\S+)\s+(.*)", line)
            if m:
                known.append({"property": m.group(1), "cls": m.group(2), "what": m.group(3)})
                continue
            m = re.match(r"fixed:\s+property=(\S+)\s+(\S+)\s+(.*)", line)
            if m:
                fixed.append({"property": m.group(1), "commit": m.group(2), "what": m.group(3)})
    return known, fixed


class Result:
    def __init__(self, prop, level="proof"):
        self.prop = prop
        self.level = level
        self.t0 = time.time()
        self.coverage = {}
        self.assumptions = []
        self.violations = []       # list of (replay dict, found_input: bool)
        self.known_hits = []       # list of (cls, what)
        self.notes = []
        import glob
        for old in glob.glob(os.path.join(REPLAYS, "%s-*.json" % prop)):
            try:
                os.unlink(old)
            except OSError:
                pass

    def violation(self, replay, found_input=True):
        self.violations.append((replay, found_input))

    def known(self, cls, what):
        if (cls, what) not in self.known_hits:
            self.known_hits.append((cls, what))

    def finish(self):
        os.makedirs(EVIDENCE, exist_ok=True)
        os.makedirs(REPLAYS, exist_ok=True)
        cov = dict(self.coverage)
        ev = {
            "property_id": self.prop,
            "tier": tier(),
            "seed": seed(),
            "level": self.level,
            "coverage": cov,
            "assumptions": self.assumptions,
            "wall_s": round(time.time() - self.t0, 2),
            "violations": len(self.violations),
            "known_findings_hit": [k[0] for k in self.known_hits],
            "notes": self.notes,
        }
        with open(os.path.join(EVIDENCE, self.prop + ".json"), "w") as f:
            json.dump(ev, f, indent=1, sort_keys=True, default=str)
        for cls, what in self.known_hits:
            print("KNOWN-FINDING: property=%s %s" % (self.prop, what), flush=True)
        rc = 0
        for i, (rep, found) in enumerate(self.violations):
            path = os.path.join(REPLAYS, "%s-%d-%d.json" % (self.prop, seed(), i))
            with open(path, "w") as f:
                json.dump(rep, f, indent=1, default=str)
            print("VIOLATION property=%s replay=%s%s" % (self.prop, path, "" if found else " no-failing-input-found"), flush=True)
            rc = 1
        return rc


def rng(tag=""):
    return random.Random("%d/%s" % (seed(), tag))
