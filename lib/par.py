"""Parallel-build scenarios on the real binaries (used by C06-C09, C12, C14):
project generators, a runner with token tracing and work-section logging."""
import os
import re
import shutil
import signal
import subprocess
import tempfile
import time

import common
import e2e

WORK = ('__ws() { printf \'%s %s %s\\n\' "$1" "$2" "$(date +%s%N)" >> "$VERIF_WORKLOG"; }\n')


def script(name, deps, dur_ms=20, fail=False, always=False, stamp=False, stderr_lines=0):
    L = [WORK.rstrip("\n")]
    if deps:
        L.append("redo-ifchange " + " ".join(deps))
    if always:
        L.append("redo-always")
    if stamp:
        # the checksum is recorded FIRST, the (long) work and the output come after:
        # between the two the row already says "changed in this run" while the script still runs.
        # It covers what the dependencies contain, so an edited source changes it.
        if deps:
            L.append('cat %s | redo-stamp' % " ".join(deps))
        else:
            L.append('echo "out $1" | redo-stamp')
    L.append('__ws B "$1"')
    for i in range(stderr_lines):
        L.append('echo "line-%d-of-$1" >&2' % i)
    L.append("sleep %.3f" % (dur_ms / 1000.0))
    L.append('__ws E "$1"')
    if fail:
        L.append("exit 3")
    # the output depends on what the dependencies contain at this moment
    if deps:
        L.append('echo "out $1 <$(cat %s | tr \'\\n\' \' \')>"' % " ".join(deps))
    else:
        L.append('echo "out $1"')
    return "\n".join(L) + "\n"


def gen_project(r, shape=None):
    """dict name -> (deps, dur, fail, always, stamp); 'all' is the entry."""
    shape = shape or r.choice(["fan", "fan2", "chain", "diamond", "mixed"])
    P = {}
    if shape == "fan":
        n = r.randint(3, 10)
        for i in range(n):
            P["f%d" % i] = ([], r.randint(5, 60), False, False, False)
        P["all"] = (["f%d" % i for i in range(n)], 5, False, False, False)
    elif shape == "fan2":
        n = r.randint(3, 7)
        m = r.randint(1, 3)
        tops = []
        for i in range(n):
            mids = []
            for k in range(m):
                P["m%d_%d" % (i, k)] = (["leaf"], r.randint(5, 40), False, False, False)
                mids.append("m%d_%d" % (i, k))
            P["t%d" % i] = (mids, 5, False, False, False)
            tops.append("t%d" % i)
        P["leaf"] = ([], r.randint(20, 60), False, False, r.random() < 0.5)
        P["all"] = (tops, 5, False, False, False)
    elif shape == "chain":
        n = r.randint(3, 8)
        prev = []
        for i in range(n):
            P["c%d" % i] = (prev, r.randint(5, 30), False, False, False)
            prev = ["c%d" % i]
        P["all"] = (prev + ["c0"], 5, False, False, False)
    elif shape == "diamond":
        P["base"] = ([], r.randint(20, 80), False, r.random() < 0.4, r.random() < 0.4)
        sides = []
        for i in range(r.randint(2, 6)):
            P["s%d" % i] = (["base"], r.randint(5, 40), False, False, False)
            sides.append("s%d" % i)
        P["top"] = (sides, 5, False, False, False)
        P["all"] = (["top"] + sides[:2], 5, False, False, False)
    else:
        n = r.randint(5, 12)
        names = []
        for i in range(n):
            deps = r.sample(names, min(len(names), r.choice([0, 1, 2, 3])))
            P["x%d" % i] = (deps, r.randint(5, 50), False, r.random() < 0.1, r.random() < 0.2)
            names.append("x%d" % i)
        P["all"] = (r.sample(names, min(len(names), 5)), 5, False, False, False)
    return shape, P


def with_failures(r, P, k=1):
    names = [n for n in P if n != "all"]
    for n in r.sample(names, min(k, len(names))):
        d = P[n]
        P[n] = (d[0], d[1], True, d[3], d[4])
    return P


class ParProject:
    def __init__(self, bindir, P, tag="par"):
        self.pr = e2e.Project(bindir, tag)
        self.root = self.pr.root
        self.P = P
        for n, (deps, dur, fail, always, stamp) in P.items():
            with open(os.path.join(self.root, n + ".do"), "w") as f:
                f.write(script(n, deps, dur, fail, always, stamp))
        self.worklog = os.path.join(self.pr.dir, "worklog")
        self.toktrace = os.path.join(self.pr.dir, "toktrace")

    def close(self):
        self.pr.close()

    def run(self, argv, jobs=None, log=True, keep_going=False, timeout=90, extra_env=None, pass_fds=(), stress_rng=None):
        for p in (self.worklog, self.toktrace):
            if os.path.exists(p):
                os.unlink(p)
        env = dict(self.pr.env)
        env["VERIF_WORKLOG"] = self.worklog
        env["REDO_VERIF_TRACE"] = self.toktrace
        if log:
            env.pop("REDO_LOG", None)
            env.pop("REDO_PRETTY", None)
        if extra_env:
            env.update(extra_env)
        cmd = list(argv)
        if jobs is not None and cmd[0] == "redo":
            cmd.insert(1, "-j%d" % jobs)
        if keep_going and cmd[0] == "redo":
            cmd.insert(1, "-k")
        t0 = time.time()
        p = subprocess.Popen(cmd, cwd=self.root, env=env, stdin=subprocess.DEVNULL, stdout=subprocess.PIPE,
                             stderr=subprocess.PIPE, start_new_session=True, pass_fds=pass_fds)
        hung = None
        stop = [False]
        th = None
        if stress_rng is not None:
            import threading
            th = threading.Thread(target=perturb, args=(stop, p.pid, stress_rng))
            th.start()
        try:
            out, err = p.communicate(timeout=timeout)
        except subprocess.TimeoutExpired:
            stop[0] = True
            if th:
                th.join()
                th = None
            hung = snapshot(p.pid)
            try:
                os.killpg(p.pid, signal.SIGKILL)
            except ProcessLookupError:
                pass
            out, err = p.communicate()
        stop[0] = True
        if th:
            th.join()
        try:
            os.killpg(p.pid, signal.SIGKILL)
        except (ProcessLookupError, PermissionError):
            pass
        return {"rc": 124 if hung else p.returncode, "out": out.decode(errors="replace"), "err": err.decode(errors="replace"),
                "hung": hung, "wall": time.time() - t0}

    def work_sections(self):
        """list of (name, begin_ns, end_ns or None)"""
        if not os.path.exists(self.worklog):
            return []
        open_, out = {}, []
        for l in open(self.worklog):
            f = l.split()
            if len(f) != 3:
                continue
            if f[0] == "B":
                open_.setdefault(f[1], []).append(int(f[2]))
            elif f[0] == "E" and open_.get(f[1]):
                out.append((f[1], open_[f[1]].pop(0), int(f[2])))
        for n, bs in open_.items():
            for b in bs:
                out.append((n, b, None))
        return out

    def validate_tokens(self, inherited=-1):
        if not os.path.exists(self.toktrace):
            return "EMPTY"
        exe = common.build_model()
        args = [exe, "toktrace", self.toktrace] + ([str(inherited)] if inherited >= 0 else [])
        p = subprocess.run(args, stdout=subprocess.PIPE, timeout=120)
        return p.stdout.decode().strip()


def perturb(stop, sid, r):
    """Randomly SIGSTOP/SIGCONT redo processes of the session for a few tens of
    milliseconds: while a process is stopped, several of the events it waits for
    (child exits, token arrivals, lock hand-overs) become ready together, so the
    wake-up that follows handles a coincidence the normal timing rarely gives."""
    while not stop[0]:
        time.sleep(r.uniform(0.005, 0.04))
        try:
            out = subprocess.run(["ps", "-o", "pid=,args=", "-s", str(sid)], stdout=subprocess.PIPE, timeout=5).stdout.decode()
        except Exception:
            continue
        pids = []
        for l in out.split("\n"):
            f = l.split(None, 1)
            if len(f) == 2 and f[1].startswith("redo") and not f[1].startswith("redo-log"):
                pids.append(int(f[0]))
        if not pids:
            continue
        victim = r.choice(pids)
        try:
            os.kill(victim, signal.SIGSTOP)
            time.sleep(r.uniform(0.02, 0.1))
        except ProcessLookupError:
            continue
        finally:
            try:
                os.kill(victim, signal.SIGCONT)
            except ProcessLookupError:
                pass


def snapshot(pid):
    try:
        sid = subprocess.run(["ps", "-o", "sid=", "-p", str(pid)], stdout=subprocess.PIPE).stdout.decode().strip()
        ps = subprocess.run(["ps", "-o", "pid,ppid,stat,wchan:22,args", "-s", sid], stdout=subprocess.PIPE).stdout.decode()
        locks = open("/proc/locks").read()
        return {"ps": ps[-3000:], "locks": locks[-1500:]}
    except Exception as e:   # pragma: no cover
        return {"error": str(e)}


def max_overlap(sections):
    ev = []
    for n, b, e in sections:
        if e is None:
            continue
        ev.append((b, 1))
        ev.append((e, -1))
    ev.sort()
    cur = best = 0
    for _, d in ev:
        cur += d
        best = max(best, cur)
    return best


def exec_counts(sections):
    c = {}
    for n, b, e in sections:
        c[n] = c.get(n, 0) + 1
    return c


def overlapping_same_target(sections):
    by = {}
    for n, b, e in sections:
        by.setdefault(n, []).append((b, e if e is not None else float("inf")))
    bad = []
    for n, l in by.items():
        l.sort()
        for (b1, e1), (b2, e2) in zip(l, l[1:]):
            if b2 < e1:
                bad.append(n)
    return bad


PANIC = re.compile(r"panicked at ([^\n]*)")


def problems(res):
    """generic C09-style problems in one run result"""
    out = []
    if res["hung"]:
        out.append({"what": "hang", "snapshot": res["hung"]})
    m = PANIC.search(res["err"])
    if m:
        out.append({"what": "panic", "where": m.group(1)})
    if "on exit: expected" in res["err"]:
        out.append({"what": "token self-test failed", "line": [l for l in res["err"].split("\n") if "on exit: expected" in l][:1]})
    if "database is locked" in res["err"]:
        out.append({"what": "database is locked"})
    return out
