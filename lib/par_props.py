"""Checks for the schedule-quantified properties C06, C07, C09, C12."""
import json
import os
import common
import par
import par_check

TB = ["Coq 8.16.1 kernel", "extraction (ExtrOcamlBasic only) + ocaml/driver.ml (trace validators)",
      "hooks redo::verif::lock_event / verif_token_event (report protocol events in a possible real order)",
      "lib/par.py, lib/par_check.py (scenario generators, SIGSTOP/SIGCONT schedule perturbation, work-section log)",
      "tools/anchors.py (translator: BUILD_LOCK_MAGIC and the order of steps the protocol models assume, read off the source as textual patterns)",
      "assumed, not verified: SQLite's BEGIN IMMEDIATE excludes other write transactions (layer 2 of Sched/BuildLock.v); fcntl byte locks are exclusive and die with their process"]


def finish(res, prop, proof, cov, viol, known=None):
    c = dict(proof)
    c.update(cov)
    c["trusted_base"] = TB + c.get("trusted_base", [])
    res.coverage = c
    kn, _ = common.known_findings()
    for v in viol[:3]:
        res.violation({"property": prop, "kind": v.get("kind", "property-oracle-on-implementation"), "failing": v,
                       "replay": "lib/par_check.py: the scenario description in 'failing.case' (project shape, -j, seed) re-run with the same VERIF_SEED"},
                      found_input=(v.get("kind") != "correspondence"))


# ---------------------------------------------------------------- C06
def run_c06(res):
    t = common.tier()
    r = common.rng("c06")
    proof = common.prove("C06")
    if t == "thorough":
        proof["coqchk_axioms"] = common.coqchk("C06")
    bindir = common.build_redo(True)
    common.build_model()
    n = 24 if t == "quick" else 200
    viol, samples = [], []
    events = 0
    dist = {"invocations": {}, "with_failures": 0, "lock_events": 0}
    for i in range(n):
        oob = (i % 4 == 3)
        if oob:
            # rebuild after a source edit below a checksummed target: the contended targets go through
            # redo-unlocked (the parent keeps the lock while a child process runs the script)
            shape = "oob-rebuild"
            P, km = par_check.oob_project(r)
            fail = False
            k = r.randint(2, 3)
            tl = []
            for _ in range(k):
                ts = r.choice([["top"], ["m0"], ["m0", "m1"], ["all"], ["m1", "top"]])
                tl.append(("redo-ifchange", ts))
            jl = [r.choice([1, 2]) for _ in range(k)]
            dist["oob_rebuild"] = dist.get("oob_rebuild", 0) + 1
            x = par_check.run_multi(bindir, r, P, k, jl, tl, log=False, prepare=par_check.oob_prepare(r))
            dist["forced_events"] = dist.get("forced_events", 0) + x.get("forced", 0)
        else:
            shape, P = par.gen_project(r, r.choice(["fan2", "diamond", "mixed", "fan2"]))
            fail = r.random() < 0.3
            if fail:
                P = par.with_failures(r, P, 1)
                dist["with_failures"] += 1
            k = r.randint(2, 5)
            names = [x for x in P if x != "all"]
            tl = []
            for _ in range(k):
                cmd = r.choice(["redo", "redo-ifchange", "redo-ifchange"])
                ts = ["all"] if r.random() < 0.5 else r.sample(names, min(len(names), r.randint(1, 3)))
                tl.append((cmd, ts))
            jl = [r.choice([1, 2, 4]) for _ in range(k)]
            x = par_check.run_multi(bindir, r, P, k, jl, tl, log=r.random() < 0.3)
        dist["invocations"][k] = dist["invocations"].get(k, 0) + 1
        case = {"shape": shape, "targets": len(P), "invocations": [" ".join([c] + ts) for c, ts in tl], "jobs": jl, "failing_script": fail}
        if len(samples) < 3:
            samples.append(dict(case, lock_trace=x["locks"]))
        if x["overlap"]:
            viol.append({"case": case, "what": "two executions of the same target's script overlapped in time", "targets": x["overlap"]})
        if not x["locks"].startswith("OK"):
            viol.append({"case": case, "kind": "trace-validation", "what": "lock/job trace rejected by the model (Sched/Locks.v)", "verdict": x["locks"]})
        else:
            events += int(x["locks"].split("events=")[1].split()[0])
            if "running_left=0" not in x["locks"]:
                viol.append({"case": case, "what": "a script was still marked running when every process had ended", "verdict": x["locks"]})
        for rr in x["results"]:
            for pb in par.problems(rr):
                if pb["what"] in ("panic", "hang"):
                    viol.append({"case": case, "what": pb["what"], "detail": pb})
    dist["lock_events"] = events
    finish(res, "C06", proof, {
        "evaluations": n, "distinct_nontrivial": n,
        "rule": "2..5 top-level invocations (redo / redo-ifchange, -j1/2/4, overlapping target sets, some with a failing script, some with log capture) started together on one project; every fourth run is a REBUILD after a source edit below a checksummed target, so that the contended targets are built through redo-unlocked; every lock/job event of every process is replayed through the extracted lock-protocol model; work sections written by the scripts themselves are checked for overlap per target; non-trivial = every run (at least two invocations contend)",
        "samples": samples, "input_distribution": dist, "traces_validated_against_impl": n}, viol)
    res.assumptions = ["A-FCNTL: the kernel grants a write lock on a byte to one process at a time and drops it when the process ends",
                       "killing only a parent redo with SIGKILL while its script lives frees the lock: outside the property as read here (stated limit)"]


# ---------------------------------------------------------------- C07
def run_c07(res):
    t = common.tier()
    r = common.rng("c07")
    proof = common.prove("C07")
    if t == "thorough":
        proof["coqchk_axioms"] = common.coqchk("C07")
    bindir = common.build_redo(True)
    common.build_model()
    n = 24 if t == "quick" else 200
    viol, samples = [], []
    dist = {"jobs": {}, "shuffle": 0, "dup_spelling": 0, "stress": 0, "shape": {}}
    for i in range(n):
        shape, P = par.gen_project(r)
        j = r.choice([1, 2, 3, 4, 8])
        if i % 4 == 1:
            # a diamond on a shared, slow, checksummed base at -j >= 2
            shape, P = par.gen_project(r, "diamond")
            b = P["base"]
            P["base"] = (b[0], r.randint(120, 250), False, False, True)
            j = r.choice([2, 3, 4])
        sh = r.random() < 0.4
        dup = r.random() < 0.3
        st = r.random() < 0.5
        dist["jobs"][j] = dist["jobs"].get(j, 0) + 1
        dist["shape"][shape] = dist["shape"].get(shape, 0) + 1
        dist["shuffle"] += sh
        dist["dup_spelling"] += dup
        dist["stress"] += st
        x = par_check.run_single(bindir, r, P, j, log=r.random() < 0.4, shuffle=sh, dup_spelling=dup, stress=st)
        ref = par_check.serial_reference(bindir, P, ["redo", "all"])
        case = {"shape": shape, "targets": len(P), "jobs": j, "shuffle": sh, "same_target_twice": dup, "perturbed": st}
        if len(samples) < 3:
            samples.append(dict(case, executions=x["counts"]))
        multi = {k: v for k, v in x["counts"].items() if v > 1}
        if multi:
            viol.append({"case": case, "what": "a target's script ran more than once in one invocation", "counts": multi})
        if x["res"]["rc"] != ref["rc"]:
            viol.append({"case": case, "what": "exit status %d differs from the serial build's %d" % (x["res"]["rc"], ref["rc"]), "stderr": x["res"]["err"][-500:]})
        if x["files"] != ref["files"]:
            viol.append({"case": case, "what": "file contents differ from the serial build", "diff": sorted(set(x["files"].items()) ^ set(ref["files"].items()))[:4]})
        if x["db"] != ref["db"]:
            viol.append({"case": case, "what": "recorded dependency state differs from the serial build",
                         "rows": sorted(set(x["db"][0]) ^ set(ref["db"][0]))[:6], "deps": sorted(set(x["db"][1]) ^ set(ref["db"][1]))[:6]})
        if x["locks"].startswith("OK") and "multi_start=-" not in x["locks"]:
            viol.append({"case": case, "what": "the lock trace shows more than one job start for a file id in one run", "verdict": x["locks"]})
        for pb in par.problems(x["res"]):
            viol.append({"case": case, "what": pb["what"], "detail": pb})
    finish(res, "C07", proof, {
        "evaluations": 2 * n, "distinct_nontrivial": sum(v for k, v in dist["jobs"].items() if k > 1),
        "rule": "random DAGs (fans, two-level fans with a shared leaf, chains, diamonds with shared always/checksummed bases, mixed) built by one invocation at -j1..8, shuffled or not, with the entry target named under several spellings, with and without SIGSTOP/SIGCONT perturbation; compared with a -j1 build of the same project in a fresh directory: execution count per target, exit status, file contents, Files rows (generated/override/failed/stamp/csum flags) and Deps rows; non-trivial = -j > 1",
        "samples": samples, "input_distribution": dist}, viol)
    res.assumptions = ["no other invocation is active on the project", "scripts are deterministic"]


# ---------------------------------------------------------------- C09
def run_c09(res):
    t = common.tier()
    r = common.rng("c09")
    proof = common.prove("C09")
    if t == "thorough":
        proof["coqchk_axioms"] = common.coqchk("C09")
    bindir = common.build_redo(True)
    common.build_model()
    n = 30 if t == "quick" else 300
    viol, samples = [], []
    dist = {"single": 0, "multi": 0, "stress": 0, "log": 0, "dup": 0, "jobs": {}}
    tok_events = 0
    for i in range(n):
        multi = (i % 3 == 2)
        if multi:
            dist["multi"] += 1
            shape, P = par.gen_project(r, r.choice(["fan2", "diamond"]))
            k = r.randint(2, 4)
            names = [x for x in P if x != "all"]
            tl = [(r.choice(["redo", "redo-ifchange"]), ["all"] if r.random() < 0.6 else r.sample(names, min(len(names), 2))) for _ in range(k)]
            jl = [r.choice([1, 2, 4]) for _ in range(k)]
            log = r.random() < 0.5
            x = par_check.run_multi(bindir, r, P, k, jl, tl, log=log)
            case = {"shape": shape, "invocations": [" ".join([c] + ts) for c, ts in tl], "jobs": jl, "log_capture": log}
            results = x["results"]
            ok_expected = True
        else:
            dist["single"] += 1
            shape, P = par.gen_project(r)
            j = r.choice([1, 2, 2, 3, 4, 8])
            st = r.random() < 0.7
            dup = r.random() < 0.35
            log = r.random() < 0.6
            dist["stress"] += st
            dist["dup"] += dup
            dist["jobs"][j] = dist["jobs"].get(j, 0) + 1
            reb = r.random() < 0.4
            dist["rebuild_after_edit"] = dist.get("rebuild_after_edit", 0) + reb
            x = par_check.run_single(bindir, r, P, j, log=log, dup_spelling=dup, stress=st, shuffle=r.random() < 0.2, rebuild=reb)
            case = {"shape": shape, "targets": len(P), "jobs": j, "perturbed": st, "same_target_twice": dup, "log_capture": log,
                    "rebuild_after_edit": reb}
            results = [x["res"]]
            if not x["tokens"].startswith("OK"):
                viol.append({"case": case, "kind": "trace-validation", "what": "token trace rejected by the model (an assertion of the token book would fail)", "verdict": x["tokens"]})
            else:
                tok_events += int(x["tokens"].split("events=")[1].split()[0])
        dist["log"] += log
        if len(samples) < 3:
            samples.append(case)
        for rr in results:
            for pb in par.problems(rr):
                viol.append({"case": case, "what": pb["what"], "detail": pb})
            if rr["rc"] != 0 and not rr["hung"]:
                viol.append({"case": case, "what": "all scripts succeed but a command exited %d" % rr["rc"], "stderr": rr["err"][-600:]})
    finish(res, "C09", proof, {
        "evaluations": n, "distinct_nontrivial": n - dist["jobs"].get(1, 0),
        "rule": "all-success projects built by one invocation (-j1..8, 40 % as a rebuild after the scripts of a few leaf targets were edited, the same target named several times, shuffle, log capture on/off) or by 2..4 contending invocations; in most runs redo processes are stopped and continued at random (SIGSTOP/SIGCONT) so that child exits, token arrivals and lock hand-overs pile up and are handled in one wake-up; every run must end (bound 90 s) with exit 0, no panic message, no token self-test failure, and its token events must be accepted by the model; non-trivial = more than one job can run at once",
        "samples": samples, "input_distribution": dist, "token_events_replayed": tok_events}, viol)
    res.assumptions = ["the OS schedules every runnable process eventually; SQLite's 60 s busy timeout is not reached", "dependency graphs without cycles (cycles: C12)"]


# ---------------------------------------------------------------- C12
def run_c12(res):
    t = common.tier()
    r = common.rng("c12")
    proof = common.prove("C12")
    if t == "thorough":
        proof["coqchk_axioms"] = common.coqchk("C12")
    bindir = common.build_redo(True)
    n = 24 if t == "quick" else 200
    viol, samples = [], []
    known_hits = 0
    dist = {"len": {}, "jobs": {}, "multi_entry_parallel": 0}
    kn, _ = common.known_findings()
    has_f9 = any(k["property"] == "C12" and k["cls"] == "parallel_multi_entry" for k in kn)
    cases = []
    for i in range(n):
        P, k, top, entry = par_check.cyclic_project(r)
        j = r.choice([1, 1, 2, 3, 4])
        mode = r.choice(["top", "member", "two_members", "top_and_sib"])
        if mode == "top":
            entries = [top]
        elif mode == "member":
            entries = ["c%d" % r.randrange(k)]
        elif mode == "two_members":
            entries = list(dict.fromkeys(["c%d" % r.randrange(k), "c%d" % r.randrange(k)]))
        else:
            entries = [top, "sib"]
        cases.append((P, k, entries, j, common.rng("c12/%d" % i)))
    from concurrent.futures import ThreadPoolExecutor
    with ThreadPoolExecutor(max_workers=6) as ex:
        results = list(ex.map(lambda c: par_check.run_cycle(bindir, c[4], c[0], c[2], c[3]), cases))
    for (P, k, entries, j, _), rr in zip(cases, results):
        cyc_members = [e for e in entries if e.startswith("c")]
        multi_entry_parallel = (j > 1 and len(cyc_members) >= 2)
        dist["len"][k] = dist["len"].get(k, 0) + 1
        dist["jobs"][j] = dist["jobs"].get(j, 0) + 1
        dist["multi_entry_parallel"] += multi_entry_parallel
        case = {"cycle_length": k, "entries": entries, "jobs": j, "project": {n_: d[0] for n_, d in P.items()}}
        if len(samples) < 3:
            samples.append(dict(case, rc=rr["rc"]))
        bad = None
        if rr["hung"]:
            bad = "hang (no termination within 15 s)"
        elif rr["rc"] == 0:
            bad = "a cyclic build exited 0"
        elif "cyclic" not in rr["err"].lower() and "208" not in rr["err"]:
            bad = "non-zero exit but no cyclic-dependency diagnosis in the output"
        if "panicked" in rr["err"]:
            bad = "panic: " + (par.PANIC.search(rr["err"]).group(1) if par.PANIC.search(rr["err"]) else "")
        if bad:
            if rr["hung"] and multi_entry_parallel and has_f9:
                known_hits += 1
                res.known("parallel_multi_entry", "F9 a dependency cycle entered from two of its members by jobs started in parallel (e.g. `redo -j2 a b` with a <-> b) hangs instead of reporting 208")
            else:
                viol.append({"case": case, "what": bad, "stderr": rr["err"][-500:], "snapshot": rr["hung"]})
    # ---- late entries: the cycle is registered first (low file ids), then many new
    # prefix targets (growing file ids, one to three digits) enter it one at a time
    late = {"entries": 0, "bad": 0}
    pp = par.ParProject(bindir, {}, "c12late")
    try:
        W = par.WORK
        open(os.path.join(pp.root, "x.do"), "w").write(W + "redo-ifchange y\necho x\n")
        open(os.path.join(pp.root, "y.do"), "w").write(W + "redo-ifchange x\necho y\n")
        pp.run(["redo", "x"], jobs=1, log=False, timeout=15)
        n_late = 30 if t == "quick" else 120
        for i in range(n_late):
            nm = "e%d.p" % i
            open(os.path.join(pp.root, nm + ".do"), "w").write(W + "redo-ifchange %s\necho %s\n" % (r.choice(["x", "y"]), nm))
            j = r.choice([1, 1, 3])
            rr = pp.run(["redo", nm], jobs=j, log=False, timeout=12)
            late["entries"] += 1
            bad = None
            if rr["hung"]:
                bad = "hang (no termination within 12 s)"
            elif rr["rc"] == 0:
                bad = "a cyclic build exited 0"
            elif "cyclic" not in rr["err"].lower():
                bad = "no cyclic-dependency diagnosis"
            if bad:
                late["bad"] += 1
                viol.append({"case": {"scenario": "cycle x <-> y registered first; then entry %s (the %d-th new target, -j%d)" % (nm, i + 1, j)},
                             "what": bad, "stderr": rr["err"][-400:], "snapshot": rr["hung"]})
                if late["bad"] >= 2:
                    break
    finally:
        pp.close()
    # ---- a cycle that closes only while a checksummed dependency is rebuilt out of band:
    # T -> (m ->)* d, d checksummed over src; after a good build src changes and d (or something
    # below it) starts to ask for T.  redo-ifchange T holds T's lock and hands d to redo-unlocked.
    oob = {"runs": 0, "bad": 0}
    for i in range(4 if t == "quick" else 30):
        pp = par.ParProject(bindir, {}, "c12oob")
        try:
            W = par.WORK
            depth = r.randint(0, 2)            # plain intermediates between T and d
            below = r.random() < 0.5           # the back edge sits in d itself or in a new dependency of d
            chain = ["T"] + ["m%d" % q for q in range(depth)] + ["d"]
            for a, b in zip(chain, chain[1:]):
                open(os.path.join(pp.root, a + ".do"), "w").write(W + "redo-ifchange %s\ncat %s\n" % (b, b))
            open(os.path.join(pp.root, "d.do"), "w").write(W + "redo-ifchange src\ncat src\nredo-stamp < src\n")
            open(os.path.join(pp.root, "src"), "w").write("v1\n")
            r0 = pp.run(["redo-ifchange", "T"], log=False, timeout=20)
            if r0["rc"] != 0:
                raise common.Broken("C12 oob scenario: the acyclic first build failed", r0["err"][-600:])
            open(os.path.join(pp.root, "src"), "w").write("v2\n")
            back = r.choice(chain[:-1])
            if below:
                open(os.path.join(pp.root, "e.do"), "w").write(W + "redo-ifchange %s\necho e\n" % back)
                open(os.path.join(pp.root, "d.do"), "w").write(W + "redo-ifchange src e\ncat src\nredo-stamp < src\n")
            else:
                open(os.path.join(pp.root, "d.do"), "w").write(W + "redo-ifchange src %s\ncat src\nredo-stamp < src\n" % back)
            j = r.choice([None, None, 2])
            rr = pp.run(["redo-ifchange", "T"] if j is None else ["redo", "-j%d" % j, "T"], log=False, timeout=12)
            oob["runs"] += 1
            bad = None
            if rr["hung"]:
                bad = "hang (no termination within 12 s)"
            elif rr["rc"] == 0:
                bad = "a cyclic build exited 0"
            elif "cyclic" not in rr["err"].lower():
                bad = "no cyclic-dependency diagnosis"
            if bad:
                oob["bad"] += 1
                viol.append({"case": {"scenario": "after a good build of %s (d checksummed over src), src changes and %s starts to depend on %s; then %s" % (
                    " -> ".join(chain), "a new dependency of d" if below else "d", back, "redo-ifchange T" if j is None else "redo -j%d T" % j)},
                    "what": bad, "stderr": rr["err"][-400:], "snapshot": rr["hung"]})
        finally:
            pp.close()
    # ---- the serial clause against the model: histories from the 'cycles' profile (a back edge added to
    # a random project; cycles closing during an out-of-band rebuild and repaired again), real vs model
    import serial
    srun = serial.run_profile("C12", ["cycles"], 40 if t == "quick" else 600)
    ser = {"histories": len(srun["lines"]), "steps_compared": sum(len(x) for x in srun["reals"]),
           "model_disagreements": len(srun["disagreements"]), "input_distribution": srun["stats"]}
    for l, real in zip(srun["lines"], srun["reals"]):
        for (resu, _, det) in real:
            if resu == "rc=124":
                viol.append({"case": {"history": l}, "what": "a command of a serial history did not terminate (harness time limit)"})
                break
    if srun["disagreements"] and not viol:
        viol.append({"kind": "correspondence", "case": {"history": srun["disagreements"][0]["history"]},
                     "what": "Build/Model.v and the implementation disagree on a history of the 'cycles' profile",
                     "first_disagreement": {k: v for k, v in srun["disagreements"][0].items() if k != "history"}})
    finish(res, "C12", proof, {
        "evaluations": n, "distinct_nontrivial": n, "serial_histories": ser,
        "rule": "projects with a dependency cycle of length 1..4 behind an acyclic prefix of length 0..2 with acyclic siblings; entry = the prefix top, a cycle member, two cycle members, or the top plus a sibling; -j1..4; every run must terminate within 15 s with a non-zero status and a cyclic-dependency diagnosis; plus late entries into a registered cycle, and cycles that close only during the out-of-band rebuild of a checksummed dependency; non-trivial = every run",
        "samples": samples, "input_distribution": dist, "known_finding_hits": known_hits, "late_entries": late, "cycle_closed_during_out_of_band_rebuild": oob}, viol)
    res.assumptions = ["the serial clause is also covered by the serial model (profile 'cycles' in C01..C05 runs)"]
