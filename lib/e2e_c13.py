"""C13 end to end: which .do is selected and what $1 $2 $3 are, on real builds.

Histories from the 'defaults' profile (default.x.do / default.y.x.do / default.do
rules, specific .do files that appear and disappear, names that repeat the
matched extension) are run by the real binaries and by the extracted model
(lib/serial.py compares them after every step, including each script's
$1:$2:$3).  Independently of the model, every script start reported by the
implementation is checked against the documented rule: the first existing
candidate in the order t.do, default<ext>.do from the longest extension to the
shortest, default.do; $1 = target, $2 = target minus the matched extension,
$3 = target + '.redo.tmp'."""
import oracles
import serial


def expected_args(tr, t):
    rule = tr.rule_for(t)
    if rule is None:
        return None
    if rule == t + ".do":
        ext = ""
    else:
        ext = rule[len("default"):-len(".do")]
    base = t[:len(t) - len(ext)] if ext else t
    return rule, (t, base, t + ".redo.tmp")


def check_history(line, real):
    steps = serial.steps_of(line)
    tr = oracles.Tracker()
    bad = []
    checked = 0
    repeated = 0
    for i, (t, (res, digest, detail)) in enumerate(zip(steps, real)):
        if t[0] in ("W", "D", "R"):
            tr.apply_edit(t)
            tr.apply_digest(digest)
            continue
        if t[1] not in ("redo", "ifchange"):
            tr.apply_digest(digest)
            continue
        for ev in detail["trace"]:
            f = ev.split(":")
            if len(f) != 5 or f[0] != "run":
                bad.append({"what": "malformed script trace", "event": ev})
                continue
            name = f[1]
            exp = expected_args(tr, name)
            checked += 1
            if exp is None:
                bad.append({"what": "a script ran for a target that has no rule", "step": i, "target": name, "event": ev})
                continue
            rule, args = exp
            if rule.startswith("default.") and rule != "default.do" and name.count(rule[len("default"):-len(".do")]) > 1:
                repeated += 1
            if tuple(f[2:5]) != args:
                bad.append({"what": "script arguments differ from the documented ones", "step": i, "cmd": " ".join(t), "target": name,
                            "selected_rule": rule, "expected $1,$2,$3": list(args), "got": f[2:5]})
        tr.apply_digest(digest)
        tr.apply_build(detail)
    return bad, checked, repeated


def run(res, r, tier):
    run_ = serial.run_profile("C13", ["defaults"], 60 if tier == "quick" else 800)
    viol = []
    checked = rep = 0
    for l, rr in zip(run_["lines"], run_["reals"]):
        b, c, k = check_history(l, rr)
        checked += c
        rep += k
        for x in b[:1]:
            x["history"] = l
            viol.append({"oracle": "documented selection / arguments", "detail": x})
    viol.sort(key=lambda v: len(v["detail"].get("history", "")))
    return {"evaluations": len(run_["lines"]), "violations": viol, "script_starts_checked": checked,
            "starts_of_targets_repeating_the_matched_extension": rep,
            "model_disagreements": run_["disagreements"][:3], "n_model_disagreements": len(run_["disagreements"]),
            "input_distribution": run_["stats"]}
