"""Property-level oracles evaluated on the IMPLEMENTATION's own results of a
serial history (independent of the Coq model): from-scratch freshness (C01,
C03), repeated build runs nothing (C02), failure handling (C05), user files
untouched (C11), ifcreate/always (C14), query commands (C17), at most one
execution per command (C07 serial part)."""
import e2e


def lst(x):
    return [] if x == "-" else x.split(",")


def candidates(name):
    out = [name + ".do"]
    for i, ch in enumerate(name):
        if ch == ".":
            out.append("default" + name[i:] + ".do")
    out.append("default.do")
    return out


class Tracker:
    """Replays the user's side of a history and what redo reported."""

    def __init__(self):
        self.user = {}        # name -> tokens of the last user write (data files)
        self.scripts = {}     # do-file name -> dict
        self.owner = {}       # name -> 'user' | 'redo'
        self.files = {}       # name -> tokens currently on disk (from the real digest)
        self.ver = {}         # name -> counter bumped by every user write/remove and every script run
        self.memo = {}        # target -> what it saw at its last successful build
        self.last_failed = set()

    def bump(self, n):
        self.ver[n] = self.ver.get(n, 0) + 1

    def apply_edit(self, t):
        self.bump(t[1])
        if t[0] == "W":
            self.user[t[1]] = lst(t[2])
            self.owner[t[1]] = "user"
        elif t[0] == "D":
            self.scripts[t[1]] = {"deps": lst(t[2]), "ifc": lst(t[3]), "always": t[4] == "1", "stamp": t[5] == "1",
                                  "out": t[6], "payload": t[7], "cat": t[8] == "1", "exit": int(t[9]),
                                  "tol": len(t) > 10 and t[10] == "1"}
        elif t[0] == "R":
            self.user.pop(t[1], None)
            self.scripts.pop(t[1], None)
            self.owner.pop(t[1], None)

    def apply_digest(self, digest):
        files = {}
        sec = digest.split(" rows=")[0]
        body = sec[len("files="):]
        for item in body.split("|"):
            if "=" in item:
                n, v = item.split("=", 1)
                files[n] = [x for x in v.split(".") if x]
        self.files = files

    def apply_build(self, detail):
        for kind, text in detail.get("records", []):
            if kind == "done":
                rc, _, name = text.partition(" ")
                if rc == "0":
                    self.owner[name] = "redo"

    def exists(self, n):
        return n in self.files or n in self.scripts

    def rule_for(self, t):
        for c in candidates(t):
            if c in self.scripts:
                return c
        return None

    def fresh(self, t, stack=()):
        """L0: bytes a from-scratch build would give t; 'FAIL' if it cannot succeed; None if no file results."""
        if t in stack:
            return "FAIL"
        if self.owner.get(t) == "user" and t in self.files:
            return list(self.files[t])
        if t in self.scripts:            # a .do file used as a dependency: it is a source
            return [self.scripts[t]["payload"]]
        rule = self.rule_for(t)
        if rule is None:
            if t in self.files:
                return list(self.files[t])
            return "FAIL"
        sc = self.scripts[rule]
        body = []
        for d in sc["deps"]:
            v = self.fresh(d, stack + (t,))
            if v == "FAIL":
                return "FAIL"
            if sc["cat"]:
                if v is None:
                    return "FAIL"
                body += v
        for w in sc["ifc"]:
            if self.exists(w):
                return "FAIL"
        if sc["exit"] != 0 or sc["out"] in ("B", "D"):
            return "FAIL"
        if sc["out"] == "N":
            return None
        return [sc["payload"]] + body

    def closure(self, ts):
        seen, todo = [], list(ts)
        while todo:
            t = todo.pop()
            if t in seen:
                continue
            seen.append(t)
            if self.owner.get(t) == "user" and t in self.files:
                continue
            rule = self.rule_for(t)
            if rule and t not in self.scripts:
                todo += self.scripts[rule]["deps"]
        return seen


def snapshot_for(tr, t, rule):
    sc = tr.scripts[rule]
    return {"rule": rule, "rule_ver": tr.ver.get(rule, 0),
            "deps": {d: (tr.ver.get(d, 0), tuple(tr.files.get(d, ["<absent>"]))) for d in sc["deps"]},
            "ifc": list(sc["ifc"]), "always": sc["always"]}


def reasons_to_run(tr, t, before_files, stamped, _visiting=None):
    """Why a redo-ifchange may legitimately have run t's script (evaluated with
    end-of-command versions).  Empty list = over-build."""
    why = []
    if _visiting is None:
        _visiting = {t}
    m = tr.memo.get(t)
    if m is None:
        return ["never built successfully"]
    if t in tr.last_failed:
        why.append("failed last time")
    if t not in before_files:
        why.append("file was missing")
    rule = tr.rule_for(t)
    if rule != m["rule"] or tr.ver.get(rule, 0) != m["rule_ver"]:
        why.append("its .do changed")
    if m["always"]:
        why.append("redo-always")
    for w in m["ifc"]:
        if tr.exists(w) or w in before_files:
            why.append("ifcreate path exists")
    for d, (v, content) in m["deps"].items():
        if tr.ver.get(d, 0) != v or d in tr.last_failed_now:
            why.append("dependency %s changed" % d)
        elif not tr.exists(d) and tr.rule_for(d) is None:
            # a dependency that cannot be built (missing, no rule) failed when t's (tolerant) script asked
            # for it; failures are retried (C05), so t is out of date until the dependency can be made
            why.append("dependency %s is missing and has no rule (failed, retried)" % d)
        elif d in tr.memo and d not in stamped and d not in _visiting:
            # a plain target that is itself out of date makes its dependents out of date
            _visiting.add(d)
            sub = reasons_to_run(tr, d, before_files, stamped, _visiting)
            _visiting.discard(d)
            if sub:
                why.append("dependency %s is itself out of date (%s)" % (d, sub[0]))
    return why


def check_history(line, real, want):
    """want: set of oracle names. Returns list of failures (dicts)."""
    steps = [t for t in e2e.parse_history(line) if t[0] not in ("P", "H")]
    tr = Tracker()
    fails = []
    last_build = None          # (step index, targets, rc, had edits since)
    failed_in_prev = {}        # target -> True if its script failed in the previous build command and no edit since
    last_any_failed = False
    tolerated_prev = {}        # target -> failed deps: its script succeeded in the previous build command although those deps failed
    edits_since_build = True
    counted = {"fresh_checked": 0, "fresh_skipped": 0, "noop_checked": 0, "fail_checked": 0, "user_checked": 0, "query_checked": 0}
    user_before = None
    prev_lists = {}
    for i, (t, (res, digest, detail)) in enumerate(zip(steps, real)):
        if t[0] in ("W", "D", "R"):
            tr.apply_edit(t)
            tr.apply_digest(digest)
            edits_since_build = True
            failed_in_prev = {}
            tolerated_prev = {}
            prev_lists = {}
            continue
        # a command
        user_files_before = {n: list(v) for n, v in tr.files.items() if tr.owner.get(n) == "user"}
        tr.prev_files = dict(tr.files)
        tr.apply_digest(digest)
        if t[1] in ("redo", "ifchange"):
            ts = lst(t[3])
            rc = int(res.split("=")[1]) if res.startswith("rc=") else None
            trace = [e.split(":")[1] for e in detail["trace"]]
            before_files = dict(user_files_before)
            before_files.update({n: v for n, v in getattr(tr, "prev_files", {}).items()})
            tr.apply_build(detail)
            dones = {}
            for kind, text in detail["records"]:
                if kind == "done":
                    c, _, n = text.partition(" ")
                    dones[n] = int(c)
            tr.last_failed_now = set(n for n, c in dones.items() if c != 0)
            if not hasattr(tr, "prev_csum"):
                tr.prev_csum = {}
            for n in trace:
                rl = tr.rule_for(n)
                content = tuple(tr.files.get(n, ["<absent>"]))
                if rl and tr.scripts[rl]["stamp"] and tr.scripts[rl]["out"] in ("S", "3") and dones.get(n) == 0:
                    if tr.prev_csum.get(n) != content:
                        tr.bump(n)
                        tr.prev_csum[n] = content
                else:
                    tr.bump(n)
                    tr.prev_csum.pop(n, None)
            # ---- C02 over-building: every script run by redo-ifchange needs a reason
            if "reason" in want and not any("208" in x or "cyclic" in x.lower() for x in [detail.get("err", "")]):
                stamped = set()
                for n in set(trace) | set(tr.memo):
                    rl = tr.rule_for(n)
                    if rl and tr.scripts[rl]["stamp"]:
                        stamped.add(n)
                forced = set(ts) if t[1] == "redo" else set()
                for n in dict.fromkeys(trace):
                    if n in forced:
                        continue
                    why = reasons_to_run(tr, n, before_files, stamped)
                    counted["reason_checked"] = counted.get("reason_checked", 0) + 1
                    if not why:
                        # shape of known finding F26: n ran only because a checksummed dependency d was rebuilt (unchanged)
                        # in the second, non-out-of-band step, d itself having a checksummed dependency that was rebuilt
                        def below(x, seen=()):
                            m_ = tr.memo.get(x)
                            out_ = []
                            if m_ and x not in seen:
                                for y in m_["deps"]:
                                    out_.append(y)
                                    out_ += below(y, seen + (x,))
                            return out_
                        nested = False
                        m_n = tr.memo.get(n) or {"deps": {}}
                        for d in m_n["deps"]:
                            if d in stamped and d in trace and any(x in stamped and x in trace for x in below(d)):
                                nested = True
                        fails.append({"oracle": "redo-ifchange ran a script although none of its inputs changed (over-build)", "step": i,
                                      "cmd": " ".join(t), "target": n, "trace": trace, "memo": str(tr.memo.get(n)),
                                      "known_class": "nested_checksum_overbuild" if nested else None})
            # refresh memos of what was built successfully, and the failure set
            for n in dict.fromkeys(trace):
                rl = tr.rule_for(n)
                if dones.get(n) == 0 and rl:
                    tr.memo[n] = snapshot_for(tr, n, rl)
                    tr.last_failed.discard(n)
                elif n in dones and dones[n] != 0:
                    tr.last_failed.add(n)
                    tr.memo.setdefault(n, None)
                    if tr.memo[n] is None:
                        del tr.memo[n]
            # a file with no rule left that redo has looked at is a source from now on
            # (redo's documented policy: it will never overwrite it again)
            gen = {}
            for row in digest.split(" rows=")[1].split(" deps=")[0].split("|"):
                f = row.split(":")
                if len(f) >= 8:
                    gen[f[0]] = f[1]
            for n in tr.closure(ts):
                if n not in tr.scripts and tr.rule_for(n) is None and n in tr.files and gen.get(n) == "0":
                    tr.owner[n] = "user"
                    tr.memo.pop(n, None)
            # ---- once per command
            if "once" in want and t[1] == "ifchange":
                for n in set(trace):
                    if trace.count(n) > 1:
                        fails.append({"oracle": "a target's script ran more than once in one command", "step": i, "cmd": " ".join(t), "target": n, "trace": trace})
            # ---- C05
            if "fail" in want:
                failed_now = [n for n, c in dones.items() if c != 0]
                any_tol = any(sc.get("tol") for sc in tr.scripts.values())
                if failed_now:
                    counted["fail_checked"] += 1
                    if not any_tol:
                        if rc == 0:
                            fails.append({"oracle": "a needed script failed but the command exited 0", "step": i, "cmd": " ".join(t), "failed": failed_now})
                    else:
                        # some scripts say "redo-ifchange ... || true": whether a failure below them reaches the
                        # command is their decision; redo's part is (a) a requested target that failed fails the
                        # command, (b) the redo-ifchange of a failing dependency fails, so a script that does
                        # not tolerate that cannot have succeeded
                        direct = [n for n in ts if dones.get(n, 0) != 0]
                        if direct and rc == 0:
                            fails.append({"oracle": "a requested target failed but the command exited 0", "step": i, "cmd": " ".join(t), "failed": direct})
                        if t[1] == "ifchange":
                            for n in dict.fromkeys(trace):
                                rl = tr.rule_for(n)
                                if rl and dones.get(n) == 0 and not tr.scripts[rl].get("tol"):
                                    badd = [d for d in tr.scripts[rl]["deps"] if dones.get(d, 0) != 0]
                                    if badd:
                                        fails.append({"oracle": "a script succeeded although the redo-ifchange of a failing dependency must have failed",
                                                      "step": i, "cmd": " ".join(t), "target": n, "failed_deps": badd})
                # no dependent of a failed target is recorded as up to date: a script that tolerated the failure
                # and succeeded is out of date in the next run
                for n, ds in tolerated_prev.items():
                    if ts and n == ts[0] and n not in trace and tr.rule_for(n) and tr.owner.get(n) != "user":
                        fails.append({"oracle": "a dependent of a failed target was treated as up to date", "step": i, "cmd": " ".join(t),
                                      "target": n, "failed_deps": ds, "trace": trace})
                    counted["tolerated_checked"] = counted.get("tolerated_checked", 0) + (1 if ts and n == ts[0] else 0)
                tolerated_prev = {}
                for n in dict.fromkeys(trace):
                    rl = tr.rule_for(n)
                    if rl and dones.get(n) == 0 and tr.scripts[rl].get("tol"):
                        badd = [d for d in tr.scripts[rl]["deps"] if dones.get(d, 0) != 0]
                        if n in tr.scripts[rl]["deps"]:
                            # a script that asks for its own target: the whole redo-ifchange is refused
                            # (208) before anything is declared (C12_self_dependency: no state change),
                            # so the failed dependencies named beside it were never recorded
                            badd = []
                        if badd:
                            tolerated_prev[n] = badd
                for n in failed_in_prev:
                    if n in tr.closure(ts) and n not in trace and tr.owner.get(n) != "user" and tr.rule_for(n):
                        # failed last run, nothing changed, requested again (directly or through its dependents) -> must be retried
                        # (only when the request actually reaches it: its requesting parents are dirty because it failed)
                        if ts and n == ts[0]:
                            fails.append({"oracle": "a target that failed in the previous run was not retried", "step": i, "cmd": " ".join(t), "target": n, "trace": trace})
                failed_in_prev = {n: True for n in failed_now}
            # ---- C01 / C03 freshness
            tol_fail = False
            for n in tr.closure(ts):
                rl = tr.rule_for(n)
                if rl and n not in tr.scripts and tr.scripts[rl].get("tol") and any(tr.fresh(d, (n,)) == "FAIL" for d in tr.scripts[rl]["deps"]):
                    # a script that shrugs off the failure of its redo-ifchange: what lies below it is
                    # (rightly) not brought up to date, by a from-scratch build either
                    tol_fail = True
            if "fresh" in want and rc == 0 and tol_fail:
                counted["fresh_skipped"] += len(tr.closure(ts))
            if "fresh" in want and rc == 0 and not tol_fail:
                for n in tr.closure(ts):
                    if n in tr.scripts:
                        continue
                    exp = tr.fresh(n)
                    if exp == "FAIL":
                        counted["fresh_skipped"] += 1
                        continue
                    counted["fresh_checked"] += 1
                    got = tr.files.get(n)
                    if got != exp:
                        fails.append({"oracle": "stale target after a command that exited 0", "step": i, "cmd": " ".join(t), "target": n,
                                      "content": got, "from_scratch": exp})
            # ---- C02 repeated build runs nothing
            if "noop" in want and last_build is not None and not edits_since_build and rc == 0 and last_build[2] == 0 \
                    and t[1] == "ifchange" and set(ts) <= set(last_build[1]) and not any(s["always"] for s in tr.scripts.values()) \
                    and not last_any_failed and not tol_fail:
                # (tol_fail: a script that shrugs off a dependency that cannot be built is out of date by C05 -- failures are retried)
                counted["noop_checked"] += 1
                if trace:
                    fails.append({"oracle": "repeated redo-ifchange with no change ran scripts", "step": i, "cmd": " ".join(t), "trace": trace})
            last_build = (i, ts, rc)
            last_any_failed = any(c != 0 for c in dones.values())
            edits_since_build = False
        else:
            # query command
            if ("query" in want or "fail" in want) and res.startswith("list="):
                counted["query_checked"] += 1
                names = lst(res[5:]) if res[5:] else []
                prev_lists[t[1]] = names
                if "query" in want and "targets" in prev_lists and "sources" in prev_lists:
                    both = set(prev_lists["targets"]) & set(prev_lists["sources"])
                    if both:
                        fails.append({"oracle": "redo-targets and redo-sources overlap", "step": i, "names": sorted(both)})
                if t[1] == "ood" and "fail" in want and last_build is not None and not edits_since_build and last_build[0] == i - 1:
                    for n, ds in tolerated_prev.items():
                        rl = tr.rule_for(n)
                        if rl and tr.scripts[rl]["out"] in ("S", "3") and n not in names:
                            fails.append({"oracle": "redo-ood does not list a target whose dependency failed in the last build", "step": i,
                                          "target": n, "failed_deps": ds, "listed": names})
                if "query" in want and t[1] == "ood" and last_build is not None and not edits_since_build and last_build[2] == 0 \
                        and last_build[0] == i - 1 and not last_any_failed:
                    built = set(tr.closure(last_build[1]))
                    bad = [n for n in names if n in built and not any(s["always"] for s in tr.scripts.values())]
                    if bad:
                        fails.append({"oracle": "redo-ood lists targets right after they were successfully built", "step": i, "names": bad})
        # ---- C11 user files untouched by any command
        if "user" in want:
            for n, v in user_files_before.items():
                counted["user_checked"] += 1
                if tr.files.get(n) != v:
                    fails.append({"oracle": "a file written by the user was changed or removed by a redo command", "step": i, "cmd": " ".join(t),
                                  "file": n, "before": v, "after": tr.files.get(n)})
    return fails, counted


def run_oracles(lines, reals, want):
    allf = []
    tot = {}
    for l, r in zip(lines, reals):
        f, c = check_history(l, r, want)
        for x in f:
            x["history"] = l
        allf += f
        for k, v in c.items():
            tot[k] = tot.get(k, 0) + v
    allf.sort(key=lambda x: len(x["history"]))
    return allf, tot
