"""Differential testing of pure functions: model (extracted OCaml) vs
implementation (Rust harness), both speaking the same line protocol."""
import itertools
import os
import common
from common import hexs, unhex, run_lines


def both(lines):
    model = common.build_model()
    hdir = common.build_harness()
    impl = os.path.join(hdir, "pharness")
    m = run_lines(model, lines)
    i = run_lines(impl, lines)
    return m, i


def impl_only(lines):
    hdir = common.build_harness()
    return run_lines(os.path.join(hdir, "pharness"), lines)


def model_only(lines):
    return run_lines(common.build_model(), lines)


def exhaustive(alphabet, maxlen, minlen=0):
    for n in range(minlen, maxlen + 1):
        for t in itertools.product(alphabet, repeat=n):
            yield b"".join(t)


def diff(lines, m, i, limit=5):
    out = []
    for l, a, b in zip(lines, m, i):
        if a != b:
            out.append({"case": l, "model": a, "impl": b, "decoded": decode_case(l)})
            if len(out) >= limit:
                break
    return out


def decode_case(l):
    parts = l.split(" ")
    return [parts[0]] + [unhex(p).decode("utf-8", "backslashreplace") for p in parts[1:]]
