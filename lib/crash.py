"""Crash harness (K) for C10: kill a redo process (or the whole process group)
immediately before its k-th state-changing system call, for every k, then run
the recovery and check it."""
import os
import shutil
import signal
import sqlite3
import struct
import subprocess
import tempfile

import common
import e2e

SHIM_SRC = os.path.join(common.VERIF, "crash", "shim.c")
SHIM = os.path.join(common.CACHE, "crash", "shim.so")


def build_shim():
    with common.Lock("shim"):
        os.makedirs(os.path.dirname(SHIM), exist_ok=True)
        if not os.path.exists(SHIM) or os.path.getmtime(SHIM) < os.path.getmtime(SHIM_SRC):
            rc, out, err = common.run(["gcc", "-O1", "-shared", "-fPIC", "-o", SHIM, SHIM_SRC, "-ldl"], timeout=120)
            if rc != 0:
                raise common.Broken("cannot build the crash shim", err.decode(errors="replace"))
    return SHIM


PROJECTS = {
    # name: (files, sources to edit later, targets, expected(contents given sources))
    "two_level": {
        "files": {"src": "v1\n",
                  "mid.do": 'redo-ifchange src\necho "mid:$(cat src)"\n',
                  "top.do": 'redo-ifchange mid\necho "top:$(cat mid)" > $3\n'},
        "edit": ("src", "v2\n"),
        "entry": ["top"],
        "expect": lambda s: {"mid": "mid:%s\n" % s.strip(), "top": "top:mid:%s\n" % s.strip()},
    },
    "stamped": {
        "files": {"src": "v1\n",
                  "c.do": 'redo-ifchange src\necho "c:$(cat src)" > $3\nredo-stamp < $3\n',
                  "t.do": 'redo-ifchange c\necho "t:$(cat c)"\n'},
        "edit": ("src", "v2\n"),
        "entry": ["t"],
        "expect": lambda s: {"c": "c:%s\n" % s.strip(), "t": "t:c:%s\n" % s.strip()},
    },
    "default_rule": {
        "files": {"src": "v1\n",
                  "default.out.do": 'redo-ifchange src\necho "$2:$(cat src)"\n',
                  "all.do": 'redo-ifchange a.out b.out\ncat a.out b.out > $3\n'},
        "edit": ("src", "v2\n"),
        "entry": ["all"],
        "expect": lambda s: {"a.out": "a:%s\n" % s.strip(), "b.out": "b:%s\n" % s.strip(), "all": "a:%s\nb:%s\n" % (s.strip(), s.strip())},
    },
    # two independent targets over one source, asked for as "b a"; the recovery command names them the
    # other way round, so that a target the killed run had not reached is built and RECORDED before the
    # target the kill interrupted is looked at again (seeded change c10-f: one job's recording swept the
    # dependency rows another, interrupted job had only flagged)
    "two_tops": {
        "files": {"src": "v1\n",
                  "a.do": 'redo-ifchange src\necho "a:$(cat src)"\n',
                  "b.do": 'redo-ifchange src\necho "b:$(cat src)" > $3\n'},
        "edit": ("src", "v2\n"),
        "entry": ["b", "a"],
        "recover_entry": ["a", "b"],
        "expect": lambda s: {"a": "a:%s\n" % s.strip(), "b": "b:%s\n" % s.strip()},
    },
}


class CrashProject:
    def __init__(self, bindir, spec, tag):
        self.spec = spec
        self.dir = tempfile.mkdtemp(prefix="crash-%s-" % tag, dir=e2e.SCRATCH_ROOT)
        self.root = os.path.join(self.dir, "p")
        os.makedirs(os.path.join(self.root, ".redo"))
        for n, c in spec["files"].items():
            with open(os.path.join(self.root, n), "w") as f:
                f.write(c)
        self.ctr = os.path.join(self.dir, "ctr")
        self.log = os.path.join(self.dir, "events")
        self.env = {"PATH": bindir + ":/usr/bin:/bin", "HOME": self.dir, "REDO_LOG": "0", "REDO_PRETTY": "0", "LC_ALL": "C"}

    def close(self):
        shutil.rmtree(self.dir, ignore_errors=True)

    def save(self):
        snap = self.dir + ".snap"
        shutil.rmtree(snap, ignore_errors=True)
        shutil.copytree(self.root, snap, symlinks=True)
        return snap

    def restore(self, snap):
        shutil.rmtree(self.root, ignore_errors=True)
        shutil.copytree(snap, self.root, symlinks=True)

    def run(self, argv, crash_at=-1, mode="proc", timeout=60, shim=True):
        with open(self.ctr, "wb") as f:
            f.write(b"\0" * 4096)
        if os.path.exists(self.log):
            os.unlink(self.log)
        env = dict(self.env)
        if shim:
            env.update({"LD_PRELOAD": build_shim(), "VERIF_CRASH_CTR": self.ctr, "VERIF_CRASH_LOG": self.log,
                        "VERIF_CRASH_ROOT": os.path.realpath(self.root), "VERIF_CRASH_AT": str(crash_at), "VERIF_CRASH_MODE": mode})
        p = subprocess.Popen(argv, cwd=self.root, env=env, stdin=subprocess.DEVNULL, stdout=subprocess.PIPE, stderr=subprocess.PIPE, start_new_session=True)
        hung = False
        try:
            out, err = p.communicate(timeout=timeout)
        except subprocess.TimeoutExpired:
            hung = True
            try:
                os.killpg(p.pid, signal.SIGKILL)
            except ProcessLookupError:
                pass
            out, err = p.communicate()
        # wait for stragglers of the group (children that survive a single-process kill finish on their own)
        for _ in range(100):
            try:
                os.killpg(p.pid, 0)
            except ProcessLookupError:
                break
            import time
            time.sleep(0.02)
        try:
            os.killpg(p.pid, signal.SIGKILL)
        except (ProcessLookupError, PermissionError):
            pass
        events = []
        if os.path.exists(self.log):
            for l in open(self.log):
                f = l.rstrip("\n").split(" ", 5)
                if len(f) >= 5:
                    events.append({"i": int(f[0]), "pid": int(f[1]), "comm": f[2], "what": f[3], "a": f[4], "b": f[5] if len(f) > 5 else "-"})
        events.sort(key=lambda e: e["i"])
        return {"rc": 124 if hung else p.returncode, "err": err.decode(errors="replace"), "events": events, "hung": hung}

    def contents(self, names):
        out = {}
        for n in names:
            p = os.path.join(self.root, n)
            out[n] = open(p).read() if os.path.exists(p) else None
        return out

    def overrides(self):
        dbf = os.path.join(self.root, ".redo", "db.sqlite3")
        if not os.path.exists(dbf):
            return []
        c = sqlite3.connect(dbf, timeout=30)
        try:
            return [r[0] for r in c.execute("select name from Files where is_override=1").fetchall()]
        except sqlite3.OperationalError:
            return ["<db unreadable>"]
        finally:
            c.close()


def f8_window(events, k):
    """True if killing before event k falls in the known window: some redo process has renamed
    <target>.redo.tmp onto its target and has not finished the commit that records it."""
    last = {}
    for e in events:
        if e["i"] >= k:
            break
        if e["comm"].startswith("redo"):
            if e["what"] == "dbwrite":
                if last.get(e["pid"], {}).get("pending"):
                    last[e["pid"]]["dbwrites"] = last[e["pid"]].get("dbwrites", 0) + 1
                continue
            pending = e["what"] == "rename" and e["a"].endswith(".redo.tmp")
            last[e["pid"]] = {"pending": pending, "dbwrites": 0}
    for pid, st in last.items():
        if st["pending"]:
            # the commit is complete once the process has made a non-db event after its db writes; while it is
            # still pending (no later non-db event) the window is open
            later = [e for e in events if e["i"] >= k and e["pid"] == pid]
            if later or True:
                return True
    return False


def stamp_window(events, k):
    """True if killing before event k falls in the second known window (F18): a redo-stamp
    process has committed and the job it belongs to has not yet renamed its output."""
    i0 = None
    for e in events:
        if e["i"] >= k:
            break
        if e["comm"] == "redo-stamp" and e["what"] == "dbwrite":
            i0 = e["i"]
    if i0 is None:
        return False
    for e in events:
        if i0 < e["i"] < k and e["comm"].startswith("redo") and e["what"] == "rename" and e["a"].endswith(".redo.tmp"):
            return False
    return True
