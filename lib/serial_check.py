"""Generic check for the properties decided on the serial build model."""
import common
import serial
import oracles

TABLE = {
    "C01": dict(profiles=["general", "stamp", "defaults", "failures"], want={"fresh", "once"},
                theorems=["C01_never_built_is_dirty", "C01_failed_is_dirty", "C01_newer_dep_is_dirty", "C01_moved_on_dep_not_clean"]),
    "C02": dict(profiles=["general", "defaults", "ifcreate", "override", "stamp"], want={"noop", "once", "fresh", "reason"},
                theorems=["C02_never_built_runs", "C02_failed_runs", "C02_check_no_file_effect", "C02_moved_on_dep_not_clean"]),
    "C03": dict(profiles=["stamp"], want={"fresh", "once"},
                theorems=["C03_stamp_unchanged", "C03_stamp_changed", "C03_newer_dep_forwards"]),
    "C05": dict(profiles=["failures"], want={"fail", "once"},
                theorems=["C05_not_twice", "C05_stop", "C05_marked_failed", "C05_failed_is_dirty", "C05_dependent_of_failed_not_clean",
                          "C05_failure_mark_survives_checks", "C05_job_failure_propagates", "C05_command_fails", "C05_script_fails_with_dep"]),
    "C11": dict(profiles=["override", "general", "defaults", "override"], want={"user", "fresh"},
                theorems=["C11_build_protects", "C11_history_protects", "C11_user_write_protected", "C11_user_file_untouched", "C11_check_readonly", "C11_record_only_own_target", "C11_queries_readonly"]),
    "C14": dict(profiles=["ifcreate", "always"], want={"fresh", "once", "noop", "reason"},
                theorems=["C14_ifcreate_existing_errors", "C14_ifcreate_absent_ok", "C14_always_newer", "C14_newer_dep_is_dirty", "C14_ifcreate_or_always_not_clean"]),
    "C17": dict(profiles=["general", "stamp", "override"], want={"query", "fresh"},
                theorems=["C17_readonly", "C17_disjoint", "C17_cover", "C17_ood_walk_readonly", "C17_ood_agrees_with_builder"]),
}


def run(res, prop, extra_lines=None, extra_oracle=None, n_quick=150, n_thorough=2000):
    t = common.tier()
    cfg = TABLE[prop]
    proof = common.prove(prop)
    if t == "thorough":
        proof["coqchk_axioms"] = common.coqchk(prop)
    run_ = serial.run_profile(prop, cfg["profiles"], n_quick if t == "quick" else n_thorough, extra_lines=extra_lines)
    fails, counted = oracles.run_oracles(run_["lines"], run_["reals"], cfg["want"])
    extra = None
    if extra_oracle:
        extra = extra_oracle(run_)
        fails = extra.get("violations", []) + fails
    # fixed scenarios outside the script DSL (symlinks, sub-directories, copies of the tree, ...)
    import scenarios
    fixed = scenarios.run(prop, run_["bindir"])
    res.scenarios_done = True
    fails = fixed["violations"] + fails
    searched = None
    if run_["disagreements"] and not fails:
        # the tie broke: look for a concrete history on which the PROPERTY fails on the implementation
        searched = search_failing_input(prop, run_, cfg["want"], extra_oracle)
        fails = searched["failures"]
    cov = serial.base_coverage(proof, run_, "theories/Build/Model.v (the whole serial build semantics)",
                               "random projects/histories from profiles %s (graph of DSL scripts: plain, default.*, checksummed, always, ifcreate, failing; steps: builds, source edits, .do edits, removals, user overwrites, queries), each executed by the real binaries and by the extracted model and compared after every step (exit status, script trace, records, file contents, database rows and dependency records); non-trivial = history with a rebuild after an edit" % cfg["profiles"])
    cov["oracle_counts"] = counted
    if searched:
        cov["failing_input_search"] = {"histories_tried": searched["tried"], "found": len(searched["failures"])}
    cov["oracle_failures"] = len(fails)
    if extra:
        cov["extra"] = {k: v for k, v in extra.items() if k != "violations"}
        cov["evaluations"] += extra.get("evaluations", 0)
    cov["fixed_scenarios"] = fixed["scenarios"]
    cov["evaluations"] += fixed["evaluations"]
    # recorded findings (KNOWN_FINDINGS): reported as such, never as violations; anything else is a violation
    kn, _ = common.known_findings()
    listed = {k["cls"]: k["what"] for k in kn}     # a recorded behaviour is the same finding whichever property's histories meet it
    listed.update({k["cls"]: k["what"] for k in kn if k["property"] == prop})
    unlisted = []
    for f in fails:
        cls = f.get("known_class")
        if cls and cls in listed:
            res.known(cls, listed[cls][:400])
        else:
            unlisted.append(f)
    cov["known_finding_hits"] = len(fails) - len(unlisted)
    fails = unlisted
    cov["oracle_failures"] = len(fails)
    res.coverage = cov
    res.assumptions = serial.SERIAL_ASSUMPTIONS
    if fails:
        for f in fails[:3]:
            res.violation({"property": prop, "kind": "property-oracle-on-implementation", "failing": f,
                           "replay": "lib/e2e.py run_real(<bindir>, history): the history text is in 'failing.history'"})
    elif run_["disagreements"]:
        res.violation({"property": prop, "kind": "correspondence", "broken": "Build/Model.v vs the implementation (serial histories)",
                       "theorems_no_longer_tied": cfg["theorems"],
                       "first_disagreements": run_["disagreements"][:3]}, found_input=False)


def search_failing_input(prop, run_, want, extra_oracle=None):
    """Extend the disagreeing histories (prefix up to the disagreeing step) with
    tails that force rebuilds and re-checks, run them on the implementation
    only, and evaluate the property oracles."""
    import e2e
    r = common.rng(prop + "/search")
    cands = []
    for d in run_["disagreements"][:6]:
        steps = [" ".join(t) for t in serial.steps_of(d["history"])]
        k = d.get("step", len(steps) - 1)
        prefix = steps[:max(1, k + 1)]
        names = set()
        for t in serial.steps_of(d["history"]):
            if t[0] == "D" and t[1].endswith(".do") and not t[1].startswith("default"):
                names.add(t[1][:-3])
            if t[0] == "C" and t[1] in ("redo", "ifchange"):
                names |= set(x for x in t[3].split(",") if x != "-")
        names = sorted(names) or ["t0"]
        srcs = ["s0", "s1", "s2"]
        for _ in range(10):
            tail = []
            tok = 900
            for _ in range(r.randint(2, 6)):
                x = r.random()
                tok += 1
                if x < 0.35:
                    tail.append("C %s k0 %s" % (r.choice(["redo", "ifchange", "ifchange"]), ",".join(r.sample(names, min(len(names), r.randint(1, 3))))))
                elif x < 0.55:
                    tail.append("W %s %d" % (r.choice(srcs), tok))
                elif x < 0.70:
                    tail.append("W %s %d" % (r.choice(names), tok))
                elif x < 0.80:
                    tail.append("R %s" % r.choice(names))
                    if r.random() < 0.5:
                        tail.append("C ood k0 -")
                        tail.append("C ifchange k0 %s" % ",".join(names))
                else:
                    tail.append("C %s k0 -" % r.choice(["ood", "targets", "sources"]))
            tail.append("C ifchange k1 %s" % ",".join(names))
            cands.append(" ; ".join(prefix + tail))
        cands.append(" ; ".join(steps))
    lines = ["P %d ; %s" % (e2e.project_depth(), l) for l in cands]
    from concurrent.futures import ThreadPoolExecutor
    with ThreadPoolExecutor(max_workers=common.NCPU) as ex:
        reals = list(ex.map(lambda il: e2e.run_real(run_["bindir"], il[1], "s%d" % il[0]), enumerate(lines)))
    fails, _ = oracles.run_oracles(lines, reals, want)
    if extra_oracle and not fails:
        fails = extra_oracle({"lines": lines, "reals": reals, "bindir": run_["bindir"]}).get("violations", [])
    return {"tried": len(lines), "failures": fails}


def replay(path):
    import json
    rep = json.load(open(path))
    print(json.dumps(rep, indent=1))
    return 0
