"""Generic check for the properties decided on the serial build model."""
import common
import serial
import oracles

TABLE = {
    "C01": dict(profiles=["general", "stamp", "defaults", "failures"], want={"fresh", "once"},
                theorems=["C01_never_built_is_dirty", "C01_failed_is_dirty", "C01_newer_dep_is_dirty"]),
    "C02": dict(profiles=["general", "defaults", "ifcreate"], want={"noop", "once", "fresh"},
                theorems=["C02_never_built_runs", "C02_failed_runs", "C02_check_no_file_effect"]),
    "C03": dict(profiles=["stamp"], want={"fresh", "once"},
                theorems=["C03_stamp_unchanged", "C03_stamp_changed", "C03_newer_dep_forwards"]),
    "C05": dict(profiles=["failures"], want={"fail", "once"},
                theorems=["C05_not_twice", "C05_stop", "C05_marked_failed", "C05_failed_is_dirty"]),
    "C11": dict(profiles=["general", "defaults", "outputs"], want={"user", "fresh"},
                theorems=["C11_user_file_untouched", "C11_check_readonly", "C11_record_only_own_target", "C11_queries_readonly"]),
    "C14": dict(profiles=["ifcreate", "always"], want={"fresh", "once", "noop"},
                theorems=["C14_ifcreate_existing_errors", "C14_ifcreate_absent_ok", "C14_always_newer", "C14_newer_dep_is_dirty"]),
    "C17": dict(profiles=["general", "stamp"], want={"query", "fresh"},
                theorems=["C17_readonly", "C17_disjoint", "C17_cover", "C17_ood_walk_readonly"]),
}


def run(res, prop, extra_lines=None, extra_oracle=None, n_quick=150, n_thorough=2000):
    t = common.tier()
    cfg = TABLE[prop]
    proof = common.prove(prop)
    if t == "thorough":
        proof["coqchk_axioms"] = common.coqchk(prop)
    run_ = serial.run_profile(prop, cfg["profiles"], n_quick if t == "quick" else n_thorough, extra_lines=extra_lines)
    fails, counted = oracles.run_oracles(run_["lines"], run_["reals"], cfg["want"])
    extra = None
    if extra_oracle:
        extra = extra_oracle(run_)
        fails = extra.get("violations", []) + fails
    cov = serial.base_coverage(proof, run_, "theories/Build/Model.v (the whole serial build semantics)",
                               "random projects/histories from profiles %s (graph of DSL scripts: plain, default.*, checksummed, always, ifcreate, failing; steps: builds, source edits, .do edits, removals, user overwrites, queries), each executed by the real binaries and by the extracted model and compared after every step (exit status, script trace, records, file contents, database rows and dependency records); non-trivial = history with a rebuild after an edit" % cfg["profiles"])
    cov["oracle_counts"] = counted
    cov["oracle_failures"] = len(fails)
    if extra:
        cov["extra"] = {k: v for k, v in extra.items() if k != "violations"}
        cov["evaluations"] += extra.get("evaluations", 0)
    res.coverage = cov
    res.assumptions = serial.SERIAL_ASSUMPTIONS
    if fails:
        for f in fails[:3]:
            res.violation({"property": prop, "kind": "property-oracle-on-implementation", "failing": f,
                           "replay": "lib/e2e.py run_real(<bindir>, history): the history text is in 'failing.history'"})
    elif run_["disagreements"]:
        res.violation({"property": prop, "kind": "correspondence", "broken": "Build/Model.v vs the implementation (serial histories)",
                       "theorems_no_longer_tied": cfg["theorems"],
                       "first_disagreements": run_["disagreements"][:3]}, found_input=False)


def replay(path):
    import json
    rep = json.load(open(path))
    print(json.dumps(rep, indent=1))
    return 0
