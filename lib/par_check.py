"""Parallel scenarios on the real binaries for C06, C07, C09, C12 (and the
parallel clauses of C05/C14): generators, runners, oracles, and validation of
the implementation's own lock/token traces against the extracted Coq models."""
import os
import random
import signal
import subprocess
import threading
import time

import common
import e2e
import par


def validate_locks(tracefile):
    if not os.path.exists(tracefile):
        return "EMPTY"
    exe = common.build_model()
    p = subprocess.run([exe, "lcktrace", tracefile], stdout=subprocess.PIPE, timeout=120)
    v = p.stdout.decode().strip()
    if "REJECT" in v:
        # keep the rejected trace for the replay file
        import shutil
        os.makedirs(os.path.join(common.VERIF, "replays"), exist_ok=True)
        keep = os.path.join(common.VERIF, "replays", "rejected-trace-%d.txt" % os.getpid())
        shutil.copy(tracefile, keep)
        v += " trace=" + keep
    return v


def snapshot_files(root):
    out = {}
    for n in sorted(os.listdir(root)):
        p = os.path.join(root, n)
        if n == ".redo" or n.endswith(".do") or not os.path.isfile(p):
            continue
        out[n] = open(p).read()
    return out


def db_abstract(root):
    rows, deps = e2e.dump_db(root)
    r2 = []
    for r in rows:
        f = r.split(":")
        # name, generated, override, failed?, stamp state, csum flag  (run ids dropped: one invocation = one run)
        r2.append(":".join([f[0], f[1], f[2], "F" if f[5] != "-" else "-", f[6], f[7]]))
    return sorted(r2), sorted(deps)


def serial_reference(bindir, P, argv):
    pp = par.ParProject(bindir, P, "ser")
    try:
        res = pp.run(argv, jobs=1 if argv[0] == "redo" else None, log=False)
        return {"rc": res["rc"], "files": snapshot_files(pp.root), "db": db_abstract(pp.root), "counts": par.exec_counts(pp.work_sections())}
    finally:
        pp.close()


def run_single(bindir, r, P, jobs, log, shuffle=False, dup_spelling=False, keep_going=False, stress=False, tag="p", rebuild=False):
    """One top-level invocation; returns a dict with everything the oracles need.
    rebuild: the project is built once first (-j2, not examined), then the scripts of a few targets without
    dependencies are edited, so that the examined run finds recorded dependencies, rebuilds shared
    dependencies while their consumers are being checked, and sets targets aside (finding F70)."""
    pp = par.ParProject(bindir, P, tag)
    try:
        if rebuild:
            first = pp.run(["redo", "all"], jobs=2, log=False)
            leaves = [n for n, d in P.items() if not d[0]] or [n for n in P if n != "all"]
            for n in r.sample(leaves, min(len(leaves), r.randint(1, 3))):
                with open(os.path.join(pp.root, n + ".do"), "a") as f:
                    f.write("# edited %d\n" % r.randint(0, 10 ** 6))
            time.sleep(0.02)
        argv = ["redo", "all"]
        if dup_spelling:
            argv += ["./all", "all", os.path.join(pp.root, "all")]
        extra = {"REDO_SHUFFLE": "1"} if shuffle else None
        if shuffle:
            argv.insert(1, "--shuffle")
        res = pp.run(argv, jobs=jobs, log=log, keep_going=keep_going, extra_env=extra,
                     stress_rng=random.Random(r.random()) if stress else None)
        ws = pp.work_sections()
        return {"res": res, "ws": ws, "counts": par.exec_counts(ws), "files": snapshot_files(pp.root), "db": db_abstract(pp.root),
                "locks": validate_locks(pp.toktrace), "tokens": pp.validate_tokens(), "overlap": par.overlapping_same_target(ws)}
    finally:
        pp.close()


def run_multi(bindir, r, P, n_inv, jobs_list, targets_list, log=False, tag="m", prepare=None):
    """Several top-level invocations started at (almost) the same time on one project.
    prepare(pp): optional first phase (e.g. a complete build followed by a source edit)."""
    pp = par.ParProject(bindir, P, tag)
    try:
        if prepare:
            prepare(pp)
            for f_ in (pp.worklog, pp.toktrace):
                if os.path.exists(f_):
                    os.unlink(f_)
        env = dict(pp.pr.env)
        env["VERIF_WORKLOG"] = pp.worklog
        env["REDO_VERIF_TRACE"] = pp.toktrace
        if log:
            env.pop("REDO_LOG", None)
            env.pop("REDO_PRETTY", None)
        procs = []
        for k in range(n_inv):
            argv = [targets_list[k][0]] + (["-j%d" % jobs_list[k]] if targets_list[k][0] == "redo" else []) + targets_list[k][1]
            procs.append(subprocess.Popen(argv, cwd=pp.root, env=env, stdin=subprocess.DEVNULL, stdout=subprocess.PIPE, stderr=subprocess.PIPE,
                                          start_new_session=True))
            time.sleep(r.uniform(0, 0.03))
        results = []
        for p in procs:
            hung = None
            try:
                out, err = p.communicate(timeout=90)
            except subprocess.TimeoutExpired:
                hung = par.snapshot(p.pid)
                try:
                    os.killpg(p.pid, signal.SIGKILL)
                except ProcessLookupError:
                    pass
                out, err = p.communicate()
            try:
                os.killpg(p.pid, signal.SIGKILL)
            except (ProcessLookupError, PermissionError):
                pass
            results.append({"rc": 124 if hung else p.returncode, "err": err.decode(errors="replace"), "out": out.decode(errors="replace"), "hung": hung})
        ws = pp.work_sections()
        forced = 0
        if os.path.exists(pp.toktrace):
            forced = sum(1 for l_ in open(pp.toktrace) if l_.startswith("lck ") and " forced " in l_)
        return {"results": results, "ws": ws, "files": snapshot_files(pp.root), "forced": forced, "locks": validate_locks(pp.toktrace),
                "overlap": par.overlapping_same_target(ws), "counts": par.exec_counts(ws)}
    finally:
        pp.close()


# ---------------------------------------------------------------- cycles (C12)
def cyclic_project(r):
    """A cycle c0 -> c1 -> ... -> c(k-1) -> c0 behind an acyclic prefix, with acyclic siblings."""
    k = r.randint(1, 4)
    P = {}
    for i in range(k):
        P["c%d" % i] = (["c%d" % ((i + 1) % k)] + (["leaf"] if r.random() < 0.3 else []), r.randint(5, 40), False, False, False)
    P["leaf"] = ([], 10, False, False, False)
    pre = r.randint(0, 2)
    entry = "c%d" % r.randrange(k)
    prev = entry
    for i in range(pre):
        P["p%d" % i] = ([prev] + (["leaf"] if r.random() < 0.5 else []), 5, False, False, False)
        prev = "p%d" % i
    P["sib"] = (["leaf"], 10, False, False, False)
    return P, k, prev, entry


def run_cycle(bindir, r, P, entries, jobs, tag="cyc"):
    pp = par.ParProject(bindir, P, tag)
    try:
        res = pp.run(["redo"] + entries, jobs=jobs, log=False, timeout=15)
        return res
    finally:
        pp.close()


# ---------------------------------------------------------------- rebuilds through the out-of-band path
def oob_project(r):
    """src -> base (checksummed, slow) -> m0..mk -> top: after an edit of src every m_i and top is
    'maybe dirty' and goes through redo-unlocked (lock held by the parent, job run by the child)."""
    P = {"base": (["src"], r.randint(80, 250), False, False, True)}
    k = r.randint(2, 4)
    for i in range(k):
        P["m%d" % i] = (["base"], r.randint(30, 120), False, False, False)
    P["top"] = (["m%d" % i for i in range(k)], 10, False, False, False)
    P["all"] = (["top"], 5, False, False, False)
    return P, k


def oob_prepare(r):
    def prep(pp):
        with open(os.path.join(pp.root, "src"), "w") as f:
            f.write("v1\n")
        res = pp.run(["redo", "all"], jobs=4, log=False)
        if res["rc"] != 0:
            raise common.Broken("oob scenario: the first build failed", res["err"][-800:])
        time.sleep(0.02)
        with open(os.path.join(pp.root, "src"), "w") as f:
            f.write("v2-%d\n" % r.randint(0, 10**6))
    return prep
