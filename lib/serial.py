"""Shared driver for the properties decided on the serial build model
(Build/Model.v): generate histories, run both sides, compare, run property
oracles on the implementation's own results."""
import os
import common
import e2e
import gen_hist


def corpus_lines(prop):
    p = os.path.join(common.VERIF, "corpus", "hist_%s.txt" % prop.lower())
    out = []
    for q in (os.path.join(common.VERIF, "corpus", "hist_all.txt"), p):
        if os.path.exists(q):
            out += [l.strip() for l in open(q) if l.strip() and not l.startswith("#")]
    return out


def run_profile(prop, profiles, n, extra_lines=None, nsteps=(5, 10)):
    """Returns dict: lines, reals, models, disagreements, stats."""
    r = common.rng(prop + "/hist")
    bindir = common.build_redo(True)
    lines = corpus_lines(prop) + list(extra_lines or [])
    stats = {}
    per = max(1, n // len(profiles))
    for pf in profiles:
        ls, st = gen_hist.generate(r, per, pf, nsteps)
        lines += ls
        for k, v in st.items():
            stats[k] = stats.get(k, 0) + v
    reals, models = e2e.run_all(bindir, lines)
    dis = []
    retried = 0
    lines = [l if l.startswith("P ") else "P %d ; %s" % (e2e.project_depth(), l) for l in lines]
    for i, (l, rr, m) in enumerate(zip(lines, reals, models)):
        d = e2e.compare(l, rr, m)
        if d:
            d["history"] = l
            dis.append(d)
    dis.sort(key=lambda d: len(d["history"]))
    stats["nondeterministic_oob_retries"] = retried
    return {"lines": lines, "reals": reals, "models": models, "disagreements": dis, "stats": stats, "bindir": bindir}


def steps_of(line):
    return [t for t in e2e.parse_history(line) if t[0] not in ("P", "H")]


def nontrivial_count(lines):
    """distinct histories with at least one rebuild step after an edit"""
    s = set()
    for l in lines:
        st = steps_of(l)
        cmds = [i for i, t in enumerate(st) if t[0] == "C" and t[1] in ("redo", "ifchange")]
        edits = [i for i, t in enumerate(st) if t[0] in ("W", "D", "R") and cmds and i > cmds[0]]
        if edits and any(c > edits[0] for c in cmds):
            s.add(l)
    return len(s)


def base_coverage(proof, run, what_model, rule):
    lines = run["lines"]
    cov = dict(proof)
    cov.update({
        "trusted_base": ["Coq 8.16.1 kernel", "extraction (ExtrOcamlBasic only) + ocaml/driver.ml (history parser, state digest)",
                         "lib/e2e.py (renders the script DSL as sh, runs the real binaries, digests files and the SQLite state)",
                         "model is hand-written: " + what_model],
        "evaluations": len(lines),
        "distinct_nontrivial": nontrivial_count(lines),
        "rule": rule,
        "samples": lines[:2] if len(lines) >= 2 else lines,
        "input_distribution": run["stats"],
        "steps_compared": sum(len(r) for r in run["reals"]),
        "correspondence_disagreements": len(run["disagreements"]),
    })
    return cov


SERIAL_ASSUMPTIONS = [
    "A-STAMP: every write to a path gives it an (mtime,size,inode) stamp never used before for that path (the harness enforces it for user edits)",
    "A-QUIESCENT: no user edit while a command runs (commands run one at a time, -j1)",
    "scripts are terms of the DSL of Build/Model.v (static declarations, output = payload line + contents of the declared dependencies)",
    "flat project directory; default*.do candidates in ancestor directories never exist",
]
