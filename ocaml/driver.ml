(* Line-protocol driver around the extracted model (Model).
   Input : one case per line, "<op> <hexarg> ..." ("-" = empty string)
   Output: one canonical result line per case, same format as the Rust harness. *)
open Model

let rec pos_of_int i =
  if i = 1 then XH
  else if i land 1 = 0 then XO (pos_of_int (i lsr 1))
  else XI (pos_of_int (i lsr 1))
let n_of_int i = if i = 0 then N0 else Npos (pos_of_int i)
let rec int_of_pos = function
  | XH -> 1 | XO p -> 2 * int_of_pos p | XI p -> 2 * int_of_pos p + 1
let int_of_n = function N0 -> 0 | Npos p -> int_of_pos p

let unhex s =
  if s = "-" then [] else
  List.init (String.length s / 2) (fun i ->
    n_of_int (int_of_string ("0x" ^ String.sub s (2*i) 2)))
let hex (b : n list) =
  if b = [] then "-" else
  String.concat "" (List.map (fun x -> Printf.sprintf "%02x" (int_of_n x)) b)

let z_of_int i = if i = 0 then Z0 else if i > 0 then Zpos (pos_of_int i) else Zneg (pos_of_int (-i))
let int_of_z = function Z0 -> 0 | Zpos p -> int_of_pos p | Zneg p -> - (int_of_pos p)
let str_of_bytes (b : n list) = String.concat "" (List.map (fun x -> String.make 1 (Char.chr (int_of_n x))) b)
(* "123.4567" -> 1234567 (units of 1e-4) *)
let ts_of_string s =
  match String.split_on_char '.' s with
  | [i; f] when String.length f = 4 -> n_of_int (int_of_string i * 10000 + int_of_string f)
  | _ -> failwith "ts"
let no_canon _ = None

let run op args =
  match op, args with
  | "norm", [p] -> hex (normpath p)
  | "abs", [c; p] -> hex (abs_path c p)
  | "rel", [t; b] -> hex (relpath no_canon [n_of_int 47] t b)
  | "relc", (cwd :: t :: b :: tbl) ->
      (* tbl: k1 v1 k2 v2 ... canonicalize() table; a missing key = NotFound *)
      let rec pairs = function k :: v :: r -> (k, v) :: pairs r | _ -> [] in
      let tb = pairs tbl in
      let canon d = List.assoc_opt d tb in
      hex (relpath canon cwd t b)
  | "pdf", [p] ->
      String.concat ";" (List.map (fun d ->
        Printf.sprintf "%s,%s,%s,%s,%s" (hex d.do_dir) (hex d.do_file)
          (hex d.base_dir) (hex d.base_name) (hex d.ext))
        (possible_do_files p))
  | "mfmt", [k; p; t; x] ->
      hex (format { kind = k; pid = z_of_int (int_of_string (str_of_bytes p));
                    ts = ts_of_string (str_of_bytes t); text = x })
  | "mparse", [l] ->
      (match parse l with
       | Some m -> let t = int_of_n m.ts in
           Printf.sprintf "OK %s %d %d.%04d %s" (hex m.kind) (int_of_z m.pid) (t / 10000) (t mod 10000) (hex m.text)
       | None -> "ERR")
  | _ -> "BADOP"

(* ------------------------------------------------------------------ *)
(* histories of the serial build model (Build/Model.v)                  *)
let bytes_of_string s = List.init (String.length s) (fun i -> n_of_int (Char.code s.[i]))
let split_list s = if s = "-" then [] else String.split_on_char ',' s
let rec int_of_nat = function O -> 0 | S n -> 1 + int_of_nat n
let rec nat_of_int_ i = if i <= 0 then O else S (nat_of_int_ (i - 1))
let base_run = int_of_z first_runid

let parse_step (toks : string list) : hstep =
  match toks with
  | ["W"; name; data] -> SWrite (bytes_of_string name, List.map (fun x -> n_of_int (int_of_string x)) (split_list data))
  | "D" :: name :: deps :: ifc :: always :: stamp :: out :: payload :: cat :: ex :: tolr when List.length tolr <= 1 ->
      let om = match out with "S" -> OStdout | "3" -> ODollar3 | "N" -> ONeither | "B" -> OBoth | "D" -> ODirect | _ -> failwith "out" in
      SWriteDo (bytes_of_string name,
        { s_deps = List.map bytes_of_string (split_list deps);
          s_ifcreate = List.map bytes_of_string (split_list ifc);
          s_always = (always = "1"); s_stamp = (stamp = "1"); s_out = om;
          s_payload = n_of_int (int_of_string payload); s_cat = (cat = "1");
          s_exit = z_of_int (int_of_string ex); s_tol = (tolr = ["1"]) })
  | ["R"; name] -> SRemove (bytes_of_string name)
  | ["H"; names] -> SHint (List.map bytes_of_string (split_list names))
  | ["C"; c; k; ts] ->
      let ts = List.map bytes_of_string (split_list ts) in
      let k = (k = "k1") in
      SCmd (match c with
            | "redo" -> CRedo (k, ts) | "ifchange" -> CIfChange (k, ts)
            | "ood" -> COod | "targets" -> CTargets | "sources" -> CSources | _ -> failwith "cmd")
  | _ -> failwith ("bad step: " ^ String.concat " " toks)

let ends_with s suf =
  let n = String.length s and m = String.length suf in n >= m && String.sub s (n - m) m = suf

let show_opt_run = function None -> "-" | Some z -> string_of_int (int_of_z z - base_run)

let digest (w : world) : string =
  let files = List.filter_map (fun (n, f) ->
      let n = str_of_bytes n in
      match f.f_script with
      | Some _ -> None
      | None -> Some (n ^ "=" ^ String.concat "." (List.map (fun x -> string_of_int (int_of_n x)) f.f_data)))
      w.fs in
  let files = List.sort compare files in
  let rows = List.map (fun r ->
      let n = str_of_bytes r.r_name in
      let st = match r.r_stamp with
        | None -> "N"
        | Some SMissing -> (match read_stamp w r.r_name with SMissing -> "M" | _ -> "m")
        | Some s -> if stamp_eqb s (read_stamp w r.r_name) then "E" else "D" in
      Printf.sprintf "%s:%d:%d:%s:%s:%s:%s:%s" n (if r.r_gen then 1 else 0) (if r.r_ovr then 1 else 0)
        (show_opt_run r.r_checked) (show_opt_run r.r_changed) (show_opt_run r.r_failed) st
        (match r.r_csum with None -> "-" | Some _ -> "c")) w.dbs.rows in
  let rows = List.sort compare rows in
  let name_of i = str_of_bytes (List.nth w.dbs.rows (int_of_nat i - 1)).r_name in
  let deps = List.map (fun d ->
      Printf.sprintf "%s>%s:%s:%d" (name_of d.d_target) (name_of d.d_source)
        (match d.d_mode with DCreated -> "c" | DModified -> "m") (if d.d_delete then 1 else 0)) w.dbs.deps in
  let deps = List.sort compare deps in
  "files=" ^ String.concat "|" files ^ " rows=" ^ String.concat "|" rows ^ " deps=" ^ String.concat "|" deps

let show_event = function
  | EvRun (t, a1, a2, a3) -> Printf.sprintf "run:%s:%s:%s:%s" (str_of_bytes t) (str_of_bytes a1) (str_of_bytes a2) (str_of_bytes a3)
  | EvWarnOverride t -> "ovr:" ^ str_of_bytes t
  | EvUnchanged t -> "unch:" ^ str_of_bytes t
  | EvNoRule t -> "norule:" ^ str_of_bytes t
  | EvCheck t -> "check:" ^ str_of_bytes t
  | EvFailed32 t -> "failed32:" ^ str_of_bytes t

let show_output = function
  | None -> "edit"
  | Some (OutBuild (evs, rc)) -> Printf.sprintf "rc=%d ev=%s" (int_of_z rc) (String.concat "," (List.map show_event evs))
  | Some (OutList names) -> "list=" ^ String.concat "," (List.map str_of_bytes names)
  | Some (OutErr w) -> Printf.sprintf "err=%d" (int_of_n w)

let run_hist (line : string) : string =
  let steps = List.map (fun s -> List.filter (fun x -> x <> "") (String.split_on_char ' ' s))
      (String.split_on_char ';' line) in
  let steps = List.filter (fun s -> s <> []) steps in
  let depth, steps = match steps with
    | ["P"; d] :: rest -> int_of_string d, rest
    | _ -> 0, steps in
  let rec nat_of_int i = if i <= 0 then O else S (nat_of_int (i - 1)) in
  let h = List.map parse_step steps in
  let res = run_history h (init_world (nat_of_int depth)) in
  let res = List.filter_map (fun (st, x) -> match st with SHint _ -> None | _ -> Some x) (List.combine h res) in
  String.concat " ;; " (List.map (fun (w, o) -> show_output o ^ " " ^ digest w) res)

(* ------------------------------------------------------------------ *)
(* token traces (Tokens/Model.v): one file per top-level invocation     *)
let validate_trace (lines : string list) (inherited : int) : string =
  let st = ref None in
  let top = ref (-1) in
  let nev = ref 0 in
  let err = ref None in
  let max_jl = ref 0 in      (* max over the accepted states of J - L: scripts not blocked inside a nested redo *)
  let zi = z_of_int and iz = int_of_z in
  let fail k l msg = if !err = None then err := Some (Printf.sprintf "REJECT line %d (%s): %s" k l msg) in
  List.iteri (fun k l ->
    if !err = None then
    match String.split_on_char ' ' l with
    | "tok" :: pid :: kind :: my :: ch :: _kids :: detail ->
        let pid = int_of_string pid and my = int_of_string my and ch = int_of_string ch in
        let detail = List.filter (fun x -> x <> "") detail in
        let known () = match !st with None -> false | Some s -> find (zi pid) s.procs <> None in
        let step e check_after =
          (match !st with
           | None -> fail k l "event before any begin"
           | Some s ->
             (match apply e s with
              | None -> fail k l "the model refuses this event (assertion / accounting would break)"
              | Some s' ->
                  incr nev;
                  st := Some s';
                  if iz s'.j - iz s'.l > !max_jl then max_jl := iz s'.j - iz s'.l;
                  if check_after then
                    (match find (zi pid) s'.procs with
                     | Some p -> if iz p.my <> my || iz p.ch <> ch then
                         fail k l (Printf.sprintf "model book (%d,%d) differs from reported (%d,%d)" (iz p.my) (iz p.ch) my ch)
                     | None -> fail k l "process unknown after event"))) in
        (match kind, detail with
         | "begin", [t] ->
             let t = int_of_string t in
             if !st = None then begin
               top := pid;
               if t > 0 then st := Some (init (zi pid) (zi t))
               else st := Some { t = zi inherited; c = Z0; procs = [(zi pid, { my = zi 1; ch = Z0 })]; j = zi 1; l = zi 1 }
             end else if not (known ()) then step (EBegin (zi pid)) true
         | "start", _ -> step (EStart (zi pid)) true
         | "read", _ -> step (ERead (zi pid)) true
         | "cheat", _ -> step (ECheat (zi pid)) true
         | "reap_eat", _ -> step (EReapEat (zi pid)) true
         | "reap_create", _ -> step (EReapCreate (zi pid)) true
         | "abandon", [n] -> step (EAbandon (zi pid, nat_of_int_ (int_of_string n))) true
         | "release", [n; shared] ->
             if known () then begin
               let before = (match !st with Some s -> iz s.t | None -> 0) in
               step (ERelease (zi pid, nat_of_int_ (int_of_string n))) true;
               (match !st with
                | Some s -> if !err = None && iz s.t - before <> int_of_string shared then
                    fail k l (Printf.sprintf "model writes %d token bytes, implementation wrote %s" (iz s.t - before) shared)
                | None -> ())
             end
         | "selftest", [tokens; cheats; _] ->
             (match !st with
              | Some s -> if iz s.t <> int_of_string tokens || iz s.c <> int_of_string cheats then
                    fail k l (Printf.sprintf "pipes hold (%s,%s) but the model has (%d,%d)" tokens cheats (iz s.t) (iz s.c))
                  else step (ESelfTest (zi pid)) false
              | None -> ())
         | "exit", _ ->
             if pid = !top && inherited < 0 then () else step (EExit (zi pid)) false
         | _ -> fail k l "unknown event")
    | _ -> ()) lines;
  match !err with
  | Some e -> e
  | None -> (match !st with
             | Some s -> Printf.sprintf "OK events=%d Q=%d T=%d C=%d J=%d L=%d procs=%d maxJL=%d" !nev (iz (q s)) (iz s.t) (iz s.c) (iz s.j) (iz s.l) (List.length s.procs) !max_jl
             | None -> "EMPTY")

(* at most one start per target and run (Sched/OnceRun.v): the same lck events,
   read as phase changes of the file's lock.  A process that announced forced_cmd
   (the redo command) forces its starts; a release by a process that does not
   hold the lock (a redo-unlocked child dropping its force-owned Lock) and the
   implicit release at process exit are handled here. *)
let validate_once (lines : string list) : string =
  let st = ref oinit in
  let nev = ref 0 in
  let err = ref None in
  let forced_pids = Hashtbl.create 8 in
  let zi = z_of_int in
  let step k l e =
    match oapply e !st with
    | Some s' -> st := s'; incr nev
    | None -> if !err = None then err := Some (Printf.sprintf "ONCE-REJECT line %d (%s)" k l) in
  List.iteri (fun k l ->
    if !err = None then
    match String.split_on_char ' ' l with
    | "lck" :: pid :: runid :: kind :: fid :: _ ->
        let fidi = int_of_string fid in
        let r = zi (if runid = "" then 0 else int_of_string runid) in
        if kind = "forced_cmd" then Hashtbl.replace forced_pids pid ()
        else if fidi = 0 || fidi >= 0x10000000 then () else begin
          let p = zi (int_of_string pid) and f = zi fidi in
          match kind with
          | "acquired" -> step k l (OAcquire (p, f))
          | "job_start" -> if Hashtbl.mem forced_pids pid then step k l (OForce (r, f)) else step k l (OStart (r, f))
          | "job_done" -> step k l (ODone (r, f))
          | "release" ->
              (match olookup f !st.locks with
               | Some (q, _) when q = p -> step k l (ORelease (p, f))
               | _ -> ())
          | _ -> ()
        end
    | "tok" :: pid :: "exit" :: _ ->
        let p = zi (int_of_string pid) in
        List.iter (fun (f, (q, ph)) ->
          if q = p then (match ph with PhBuild _ -> () | _ -> step k l (ORelease (p, f)))) !st.locks
    | _ -> ()) lines;
  match !err with
  | Some e -> e
  | None -> Printf.sprintf "once=OK once_events=%d starts=%d forced_starts=%d" !nev (List.length !st.starts) (List.length !st.fstarts)

(* lock / job protocol traces (Sched/Locks.v with the build lock's obligations, Sched/BuildLock.v) *)
let validate_locks (lines : string list) : string =
  let st = ref empty in
  let nev = ref 0 in
  let err = ref None in
  let starts = Hashtbl.create 64 in      (* (runid, fid) -> number of job starts *)
  let zi = z_of_int in
  let step k l e =
    match blapply e !st with
    | Some s' -> st := s'; incr nev
    | None -> if !err = None then err := Some (Printf.sprintf "REJECT line %d (%s)" k l) in
  List.iteri (fun k l ->
    if !err = None then
    match String.split_on_char ' ' l with
    | "lck" :: pid :: runid :: kind :: fid :: _ ->
        let p = zi (int_of_string pid) and f = zi (int_of_string fid) in
        (* fid 0 is the broken-lock self test, fids from LOG_LOCK_MAGIC up to BUILD_LOCK_MAGIC are
           (shared) log locks; from BUILD_LOCK_MAGIC up, build locks *)
        if int_of_string fid = 0 || (int_of_string fid >= 0x10000000 && int_of_string fid < 0x20000000) then () else
        (match kind with
         | "acquired" -> step k l (LAcquired (p, f))
         | "busy" -> step k l (LBusy (p, f))
         | "release" -> step k l (LRelease (p, f))
         | "forced" -> step k l (LForced (p, f))
         | "job_start" ->
             let key = (runid, fid) in
             Hashtbl.replace starts key (1 + (try Hashtbl.find starts key with Not_found -> 0));
             step k l (LJobStart (p, f))
         | "job_done" -> step k l (LJobDone (p, f))
         | _ -> ())
    | "tok" :: pid :: "exit" :: _ -> step k l (LProcExit (zi (int_of_string pid)))
    | _ -> ()) lines;
  let dup = Hashtbl.fold (fun (r, f) n acc -> if n > 1 then (Printf.sprintf "%s:%s:%d" r f n) :: acc else acc) starts [] in
  match !err with
  | Some e -> e
  | None -> Printf.sprintf "OK events=%d running_left=%d held_left=%d multi_start=%s" !nev
              (List.length !st.running) (List.length !st.holder) (if dup = [] then "-" else String.concat "," dup)

(* static log replay (LogRec/Catlog.v): one case per line
     <u:0|1> <root,root,...> <name>=<K|-|Lhex> ...        (names and contents in hex)
   names not listed are unknown to redo.  Output: status and the rendered bytes. *)
let catlog_case (line : string) : string =
  match List.filter (fun x -> x <> "") (String.split_on_char ' ' line) with
  | u :: roots :: entries ->
      let tbl = Hashtbl.create 16 in
      List.iter (fun e ->
        match String.index_opt e '=' with
        | Some i ->
            let k = String.sub e 0 i and v = String.sub e (i + 1) (String.length e - i - 1) in
            Hashtbl.replace tbl (unhex k)
              (if v = "-" then KNoLog else KLog (unhex (String.sub v 1 (String.length v - 1))))
        | None -> ()) entries;
      let lookup nm = match Hashtbl.find_opt tbl nm with Some k -> k | None -> KUnknown in
      let top = List.map (fun c -> n_of_int (Char.code c)) ['/'; 't'; 'o'; 'p'] in
      let canon p = Some (normpath p) in
      let rel mydir text = relpath canon top (path_push (path_push top mydir) text) top in
      let rec nat_of_int i = if i <= 0 then O else S (nat_of_int (i - 1)) in
      let roots = List.map unhex (String.split_on_char ',' roots) in
      let (st, evs) = run_log lookup rel (u = "1") (nat_of_int 200) roots [] in
      let st = (match st with SOk -> "ok" | SExit24 -> "exit24" | SPanic -> "panic" | SFuel -> "fuel") in
      st ^ " " ^ hex (List.concat (List.map render_ev evs))
  | _ -> "BADCASE"

(* SQLite abstraction (Sqlite/Wal.v): one case per line
     <mode>:<ops> <mode>:<ops> ... | <connection index per step ...>      mode D|I, ops a string over R W
   Output: the outcome of every step; a connection that got busy rolls back and stops. *)
let wal_case (line : string) : string =
  match String.split_on_char '|' line with
  | [ps; sched] ->
      let words x = List.filter (fun w -> w <> "") (String.split_on_char ' ' x) in
      let prog w =
        match String.split_on_char ':' w with
        | [m; ops] -> { pmode = (if m = "I" then Immediate else Deferred);
                        pops = List.map (fun c -> if c = 'W' then OWrite else ORead) (List.init (String.length ops) (String.get ops)) }
        | _ -> failwith "prog" in
      let ps = List.map prog (words ps) in
      let rec nat_of_int i = if i <= 0 then O else S (nat_of_int (i - 1)) in
      let d = ref (wal_init ps) in
      let dead = Hashtbl.create 4 in
      String.concat " " (List.map (fun w ->
        let i = int_of_string w in
        if Hashtbl.mem dead i then "ok" else
        match wal_step ps (nat_of_int i) !d with
        | Ok d' -> d := d'; "ok"
        | Blocked d' -> d := d'; "blocked"
        | Busy -> d := wal_abort (nat_of_int i) !d; Hashtbl.replace dead i (); "busy") (words sched))
  | _ -> "BADCASE"

let () =
  if Array.length Sys.argv > 1 && Sys.argv.(1) = "wal" then begin
    (try while true do print_endline (wal_case (input_line stdin)) done with End_of_file -> ()); exit 0 end;
  if Array.length Sys.argv > 1 && Sys.argv.(1) = "catlog" then begin
    (try while true do print_endline (catlog_case (input_line stdin)) done with End_of_file -> ()); exit 0 end;
  if Array.length Sys.argv > 2 && Sys.argv.(1) = "lcktrace" then begin
    let ic = open_in Sys.argv.(2) in
    let rec rd acc = match input_line ic with l -> rd (l :: acc) | exception End_of_file -> List.rev acc in
    let ls = rd [] in
    let v = validate_locks ls in
    let o = validate_once ls in
    print_endline (if String.length o >= 11 && String.sub o 0 11 = "ONCE-REJECT" && String.length v >= 2 && String.sub v 0 2 = "OK" then o else v ^ " " ^ o); exit 0 end;
  if Array.length Sys.argv > 2 && Sys.argv.(1) = "toktrace" then begin
    let inherited = if Array.length Sys.argv > 3 then int_of_string Sys.argv.(3) else -1 in
    let ic = open_in Sys.argv.(2) in
    let rec rd acc = match input_line ic with l -> rd (l :: acc) | exception End_of_file -> List.rev acc in
    print_endline (validate_trace (rd []) inherited); exit 0 end;
  if Array.length Sys.argv > 1 && Sys.argv.(1) = "hist" then begin
    (try
      while true do
        let line = input_line stdin in
        print_endline (try run_hist line with Failure m -> "MODEL-ERROR " ^ m)
      done
    with End_of_file -> ()); exit 0 end;
  try
    while true do
      let line = input_line stdin in
      match String.split_on_char ' ' line with
      | [] -> print_endline "BADOP"
      | op :: args -> print_endline (run op (List.map unhex args))
    done
  with End_of_file -> ()
