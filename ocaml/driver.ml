(* Line-protocol driver around the extracted model (Model).
   Input : one case per line, "<op> <hexarg> ..." ("-" = empty string)
   Output: one canonical result line per case, same format as the Rust harness. *)
open Model

let rec pos_of_int i =
  if i = 1 then XH
  else if i land 1 = 0 then XO (pos_of_int (i lsr 1))
  else XI (pos_of_int (i lsr 1))
let n_of_int i = if i = 0 then N0 else Npos (pos_of_int i)
let rec int_of_pos = function
  | XH -> 1 | XO p -> 2 * int_of_pos p | XI p -> 2 * int_of_pos p + 1
let int_of_n = function N0 -> 0 | Npos p -> int_of_pos p

let unhex s =
  if s = "-" then [] else
  List.init (String.length s / 2) (fun i ->
    n_of_int (int_of_string ("0x" ^ String.sub s (2*i) 2)))
let hex (b : n list) =
  if b = [] then "-" else
  String.concat "" (List.map (fun x -> Printf.sprintf "%02x" (int_of_n x)) b)

let z_of_int i = if i = 0 then Z0 else if i > 0 then Zpos (pos_of_int i) else Zneg (pos_of_int (-i))
let int_of_z = function Z0 -> 0 | Zpos p -> int_of_pos p | Zneg p -> - (int_of_pos p)
let str_of_bytes (b : n list) = String.concat "" (List.map (fun x -> String.make 1 (Char.chr (int_of_n x))) b)
(* "123.4567" -> 1234567 (units of 1e-4) *)
let ts_of_string s =
  match String.split_on_char '.' s with
  | [i; f] when String.length f = 4 -> n_of_int (int_of_string i * 10000 + int_of_string f)
  | _ -> failwith "ts"
let no_canon _ = None

let run op args =
  match op, args with
  | "norm", [p] -> hex (normpath p)
  | "abs", [c; p] -> hex (abs_path c p)
  | "rel", [t; b] -> hex (relpath no_canon [n_of_int 47] t b)
  | "pdf", [p] ->
      String.concat ";" (List.map (fun d ->
        Printf.sprintf "%s,%s,%s,%s,%s" (hex d.do_dir) (hex d.do_file)
          (hex d.base_dir) (hex d.base_name) (hex d.ext))
        (possible_do_files p))
  | "mfmt", [k; p; t; x] ->
      hex (format { kind = k; pid = z_of_int (int_of_string (str_of_bytes p));
                    ts = ts_of_string (str_of_bytes t); text = x })
  | "mparse", [l] ->
      (match parse l with
       | Some m -> let t = int_of_n m.ts in
           Printf.sprintf "OK %s %d %d.%04d %s" (hex m.kind) (int_of_z m.pid) (t / 10000) (t mod 10000) (hex m.text)
       | None -> "ERR")
  | _ -> "BADOP"

let () =
  try
    while true do
      let line = input_line stdin in
      match String.split_on_char ' ' line with
      | [] -> print_endline "BADOP"
      | op :: args -> print_endline (run op (List.map unhex args))
    done
  with End_of_file -> ()
